#!/bin/bash
# Offline setup: overlay venv on /venv (which holds moPepGen's dependencies) + crosshair-tool + z3-solver
# from the local wheelhouse.  Idempotent.
set -e
cd "$(dirname "$0")"
export PIP_NO_INDEX=1
if [ ! -x .venv/bin/python ] || ! .venv/bin/python -c "import crosshair, z3" >/dev/null 2>&1; then
  rm -rf .venv
  /venv/bin/python -m venv .venv
  echo "import site; site.addsitedir('/venv/lib/python3.12/site-packages')" > .venv/lib/python3.12/site-packages/_overlay.pth
  .venv/bin/pip install -q --no-index --find-links /opt/veriftools/wheels crosshair-tool z3-solver
fi
.venv/bin/python -c "import crosshair, z3, Bio, regex; print('mpgverif venv ok: crosshair', crosshair.__version__, 'z3', z3.get_version_string(), 'Bio', Bio.__version__)"
if [ "${1:-}" != "--no-conformance" ] && [ -f mpgverif/conformance.py ]; then
  PYTHONPATH="$PWD:/repo" .venv/bin/python -m mpgverif.conformance --quick
fi
