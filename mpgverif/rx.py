"""E2: regex -> SMT window encoder for the cleavage-rule tables.

The live ``EXPASY_RULES`` / ``EXPASY_RULES2`` strings are parsed with Python's own
``re._parser`` at every run and lowered to *alternatives* of
(look-behind sets, consumed sets, look-ahead sets), all fixed width.  Anything else
(variable-width repeats, back references, anchors, nested look-arounds ...) raises
``Unsupported`` and makes the condition inconclusive, never passing.

The same alternatives drive (i) a tiny reference matcher in Python used to validate
the translation against the real ``re`` / ``regex`` engines, and (ii) z3 predicates
over a string of symbolic code points c_0..c_{N-1} with symbolic length n <= N.
"""
import re

try:
    import re._constants as sre_c
    import re._parser as sre_parse
except ImportError:  # pragma: no cover
    import sre_constants as sre_c
    import sre_parse

import z3


class Unsupported(Exception):
    pass


class CS:
    """character set: negation flag, literal code points, \\w flag"""

    def __init__(self, neg, lits, word):
        self.neg, self.lits, self.word = neg, frozenset(lits), word

    def z3(self, c):
        terms = [c == l for l in sorted(self.lits)]
        if self.word:
            terms.append(isword(c))
        t = z3.Or(terms) if terms else z3.BoolVal(False)
        return z3.Not(t) if self.neg else t

    def py(self, ch):
        r = (ord(ch) in self.lits) or (self.word and (ch.isalnum() or ch == '_'))
        return (not r) if self.neg else r

    def key(self):
        return (self.neg, tuple(sorted(self.lits)), self.word)

    def __repr__(self):
        body = ''.join(chr(c) for c in sorted(self.lits)) + ('\\w' if self.word else '')
        return ('[^' if self.neg else '[') + body + ']'


def isword(c):
    return z3.Or(z3.And(c >= 48, c <= 57), z3.And(c >= 65, c <= 90),
                 z3.And(c >= 97, c <= 122), c == 95)


def item_to_sets(op, av):
    if op == sre_c.LITERAL:
        return [CS(False, [av], False)]
    if op == sre_c.NOT_LITERAL:
        return [CS(True, [av], False)]
    if op == sre_c.ANY:
        return [CS(True, [10], False)]
    if op == sre_c.IN:
        neg = False
        lits = []
        word = False
        for o, a in av:
            if o == sre_c.NEGATE:
                neg = True
            elif o == sre_c.LITERAL:
                lits.append(a)
            elif o == sre_c.RANGE:
                lits.extend(range(a[0], a[1] + 1))
            elif o == sre_c.CATEGORY and a == sre_c.CATEGORY_WORD:
                word = True
            else:
                raise Unsupported(f'set item {o} {a}')
        return [CS(neg, lits, word)]
    if op == sre_c.MAX_REPEAT or op == sre_c.MIN_REPEAT:
        lo, hi, sub = av
        if lo != hi:
            raise Unsupported('variable-width repeat')
        one = []
        for o, a in sub:
            one.extend(item_to_sets(o, a))
        return one * lo
    raise Unsupported(f'regex construct {op}')


def alternatives(pattern):
    """-> list of (lookbehind sets, consumed sets, lookahead sets), in match priority order"""
    parsed = sre_parse.parse(pattern)

    def expand(seq):
        alts = [[]]
        for op, av in seq:
            if op == sre_c.BRANCH:
                subs = []
                for b in av[1]:
                    subs.extend(expand(b))
                alts = [a + s for a in alts for s in subs]
            elif op == sre_c.SUBPATTERN:
                subs = expand(av[3])
                alts = [a + s for a in alts for s in subs]
            elif op in (sre_c.ASSERT, sre_c.ASSERT_NOT):
                if op == sre_c.ASSERT_NOT:
                    raise Unsupported('negative look-around')
                direction, sub = av
                subs = expand(sub)
                tag = 'LA' if direction == 1 else 'LB'
                new = []
                for a in alts:
                    for s in subs:
                        if not all(t == 'C' for t, _ in s):
                            raise Unsupported('nested look-around')
                        sets = [x for _, ss in s for x in ss]
                        new.append(a + [(tag, sets)])
                alts = new
            else:
                sets = item_to_sets(op, av)
                alts = [a + [('C', sets)] for a in alts]
        return alts

    out = []
    for alt in expand(parsed):
        lb, c, la = [], [], []
        for tag, sets in alt:
            if tag == 'LB':
                if c or la:
                    raise Unsupported('look-behind after consumed characters')
                lb.extend(sets)
            elif tag == 'C':
                if la:
                    raise Unsupported('consumed characters after look-ahead')
                c.extend(sets)
            else:
                la.extend(sets)
        out.append((lb, c, la))
    return out


# ---------------------------------------------------------------- python reference
def match_at(alts, s, start):
    for idx, (lb, c, la) in enumerate(alts):
        a = start - len(lb)
        b = start + len(c) + len(la)
        if a < 0 or b > len(s):
            continue
        if all(cs.py(ch) for cs, ch in zip(lb + c + la, s[a:b])):
            return idx
    return None


def model_sites(alts, s):
    """sites of re.finditer for a pattern whose alternatives all consume exactly 1 char"""
    return [i + 1 for i in range(len(s)) if match_at(alts, s, i) is not None]


def model_ranges(alts, s):
    """ranges of regex.finditer(overlapped=True) for a look-around-free pattern"""
    out = []
    for i in range(len(s)):
        k = match_at(alts, s, i)
        if k is not None:
            out.append((i, i + len(alts[k][1])))
    return out


# ---------------------------------------------------------------- z3 encoding
class Enc:
    """symbolic string of length n <= N over the alphabet A-Z and '*'"""

    def __init__(self, N, tag=''):
        self.N = N
        self.c = [z3.Int(f'c{tag}{i}') for i in range(N)]
        self.n = z3.Int(f'n{tag}')
        self.dom = [z3.And(0 <= self.n, self.n <= N)]
        for ci in self.c:
            self.dom.append(z3.Or(z3.And(ci >= 65, ci <= 90), ci == 42))

    def alt_match(self, alt, start):
        lb, cc, la = alt
        a = start - len(lb)
        b = start + len(cc) + len(la)
        if a < 0 or b > self.N:
            return z3.BoolVal(False)
        sets = lb + cc + la
        return z3.And([b <= self.n] + [cs.z3(self.c[a + k]) for k, cs in enumerate(sets)])

    def site(self, alts, i):
        """a match consuming position i (site i+1)"""
        return z3.Or([self.alt_match(alt, i) for alt in alts])

    def string(self, model):
        ln = model.eval(self.n, model_completion=True).as_long()
        return ''.join(chr(model.eval(ci, model_completion=True).as_long()) for ci in self.c[:ln])
