"""Run one direct-z3 condition.  usage: python -m mpgverif.z3worker <module> <cond> <tier> <out.json>"""
import importlib
import json
import sys
import time
import traceback


def main():
    modname, cname, tier, out = sys.argv[1:5]
    t0 = time.time()
    res = {'cond': cname, 'module': modname, 'mode': 'main', 'status': 'ERROR', 'message': ''}
    try:
        importlib.import_module(modname)
        from mpgverif.z3cond import REGISTRY
        r = REGISTRY[cname].fn(tier)
        res.update(r)
        res['num_paths'] = r.get('queries', 0)
    except BaseException as e:
        res['status'] = 'ERROR'
        res['message'] = f'{type(e).__name__}: {e}'
        res['traceback'] = traceback.format_exc()[-4000:]
    res['cpu_s'] = round(time.process_time(), 2)
    res['wall_s'] = round(time.time() - t0, 2)
    json.dump(res, open(out, 'w'))


if __name__ == '__main__':
    main()
