"""Harness-condition registry.

A *condition* is a harness function with a PEP-316 contract (``pre:`` lines and
``post: _ >= 0``) whose body drives real moPepGen code from symbolic scalars and
returns a result code:

    OK   (1)  the final comparison was reached and the property held on this path
    SKIP (0)  the input lies outside the scope of the harness (counted separately)
    < 0       the property is violated; distinct negative codes name distinct
              failure classes (used for known-finding matching)

For every condition a *reachability twin* with ``post: _ != 1`` is generated; it
must be refuted (some path returns OK), otherwise the condition is vacuous.
"""
from dataclasses import dataclass, field
from typing import Callable, Dict, List, Optional

OK = 1
SKIP = 0

REGISTRY: Dict[str, "Cond"] = {}


@dataclass
class Cond:
    name: str
    fn: Callable
    prop: str
    tiers: tuple            # ('quick','thorough') or ('thorough',)
    timeout: float          # CPU seconds per condition (quick)
    timeout_thorough: float
    shim: bool              # needs the Bio shim
    tokens: bool            # needs the rendered-int tokens
    bounds: str
    encodes: List[str]
    stubs: List[str] = field(default_factory=list)
    codes: Dict[int, str] = field(default_factory=dict)
    lift: Optional[Callable] = None   # optional command-level confirmation of a witness
    module: str = ''
    per_path_timeout: Optional[float] = None
    expect: str = 'confirmed'   # 'confirmed' | 'refuted-known' (known-finding condition)


def cond(prop, bounds, encodes, tiers=('quick', 'thorough'), timeout=120.0,
         timeout_thorough=None, shim=True, tokens=False, stubs=(), codes=None,
         lift=None, per_path_timeout=None, expect='confirmed'):
    def deco(fn):
        c = Cond(name=fn.__name__, fn=fn, prop=prop, tiers=tuple(tiers),
                 timeout=float(timeout),
                 timeout_thorough=float(timeout_thorough or timeout),
                 shim=shim, tokens=tokens, bounds=bounds, encodes=list(encodes),
                 stubs=list(stubs), codes=dict(codes or {}), lift=lift,
                 module=fn.__module__, per_path_timeout=per_path_timeout,
                 expect=expect)
        if c.name in REGISTRY and REGISTRY[c.name].module != c.module:
            raise RuntimeError(f"duplicate condition name {c.name}")
        REGISTRY[c.name] = c
        return fn
    return deco
