"""Differential conformance test of the Bio stand-ins (mpgverif/bioshim.py) against the real
Biopython classes on generated concrete arguments.  Not a check of moPepGen: it validates a part of
the trusted base.  usage: python -m mpgverif.conformance [--quick]   (exit 0 = all agree)"""
import os
import random
import sys

import Bio.Seq as RS
import Bio.SeqFeature as RF

from mpgverif import bioshim as S


def _rand_seq(rnd, alphabet, lo=0, hi=12):
    return ''.join(rnd.choice(alphabet) for _ in range(rnd.randint(lo, hi)))


def main():
    quick = '--quick' in sys.argv
    rnd = random.Random(int(os.environ.get('VERIF_SEED', '0') or 0))
    n = 400 if quick else 4000
    bad = []
    total = 0
    dna = 'ACGTN'
    prot = 'ACDEFGHIKLMNPQRSTVWYX*'

    def cmp(name, a, b, ctx):
        nonlocal total
        total += 1
        if a != b:
            bad.append((name, ctx, a, b))

    for _ in range(n):
        s = _rand_seq(rnd, dna)
        t = _rand_seq(rnd, dna, 0, 3)
        i, j = rnd.randint(-3, 14), rnd.randint(-3, 14)
        r, m = RS.Seq(s), S.Seq(s)
        cmp('str', str(r), str(m), s)
        cmp('len', len(r), len(m), s)
        cmp('slice', str(r[i:j]), str(m[i:j]), (s, i, j))
        cmp('slice_open', str(r[i:]), str(m[i:]), (s, i))
        if s:
            k = rnd.randrange(len(s))
            cmp('getitem', r[k], m[k], (s, k))
        cmp('add', str(r + RS.Seq(t)), str(m + S.Seq(t)), (s, t))
        cmp('add_str', str(r + t), str(m + t), (s, t))
        cmp('radd_str', str(t + r), str(t + m), (s, t))
        cmp('eq_str', r == s, m == s, s)
        cmp('eq_other', r == t, m == t, (s, t))
        if t:
            cmp('find', r.find(t), m.find(t), (s, t))
            cmp('find_start', r.find(t, max(i, 0)), m.find(t, max(i, 0)), (s, t, i))
            cmp('rfind', r.rfind(t), m.rfind(t), (s, t))
            cmp('count', r.count(t), m.count(t), (s, t))
            cmp('contains', t in r, t in m, (s, t))
            cmp('split', [str(x) for x in r.split(t)], [str(x) for x in m.split(t)], (s, t))
        cmp('startswith', r.startswith(t), m.startswith(t), (s, t))
        cmp('endswith', r.endswith(t), m.endswith(t), (s, t))
        cmp('lstrip', str(r.lstrip('A')), str(m.lstrip('A')), s)
        cmp('rstrip', str(r.rstrip('T')), str(m.rstrip('T')), s)
        cmp('revcomp', str(r.reverse_complement()), str(m.reverse_complement()), s)
        cmp('complement', str(r.complement()), str(m.complement()), s)
        cmp('iter', list(r), list(m), s)
        s3 = _rand_seq(rnd, 'ACGT', 0, 15)
        cmp('translate', str(RS.Seq(s3[:len(s3) - len(s3) % 3]).translate()), str(S.Seq(s3).translate()), s3)
        cmp('translate_to_stop', str(RS.Seq(s3[:len(s3) - len(s3) % 3]).translate(to_stop=True)),
            str(S.Seq(s3).translate(to_stop=True)), s3)
        p = _rand_seq(rnd, prot)
        cmp('prot_find_stop', RS.Seq(p).find('*'), S.Seq(p).find('*'), p)
        cmp('prot_lstripX', str(RS.Seq(p).lstrip('X')), str(S.Seq(p).lstrip('X')), p)
        cmp('upper', str(RS.Seq(s.lower()).upper()), str(S.Seq(s.lower()).upper()), s)
        # locations
        a = rnd.randint(0, 20)
        b = a + rnd.randint(0, 10)
        st = rnd.choice([1, -1, 0, None])
        rl, ml = RF.SimpleLocation(a, b, st), S.SimpleLocation(a, b, st)
        q = rnd.randint(-2, 32)
        cmp('loc_len', len(rl), len(ml), (a, b))
        cmp('loc_contains', q in rl, q in ml, (a, b, q))
        cmp('loc_iter', list(rl), list(ml), (a, b, st))
        cmp('loc_start_end', (int(rl.start), int(rl.end), rl.strand), (ml.start, ml.end, ml.strand), (a, b, st))
        sh = rl._shift(3)
        sm = ml._shift(3)
        cmp('loc_shift', (int(sh.start), int(sh.end), sh.strand), (sm.start, sm.end, sm.strand), (a, b, st))
        fl = rl._flip(40)
        fm = ml._flip(40)
        cmp('loc_flip', (int(fl.start), int(fl.end), fl.strand), (fm.start, fm.end, fm.strand), (a, b, st))
    # every upper-case letter and the special symbols through complement
    for ch in 'ABCDEFGHIJKLMNOPQRSTUVWXYZ*-':
        cmp('complement_letter', str(RS.Seq(ch).complement()), str(S.Seq(ch).complement()), ch)
    print(f'bioshim conformance: {total - len(bad)}/{total} comparisons agree')
    for b in bad[:20]:
        print('DISAGREE', b)
    return 1 if bad else 0


if __name__ == '__main__':
    sys.exit(main())
