"""Registry for conditions decided by direct z3 queries (E2 encoders, LIA lemmas).

A z3 condition is a function ``fn(tier) -> dict`` executed in its own process by
``mpgverif.z3worker``.  It regenerates its encoding from /repo's live objects, asks z3,
replays every model against the real functions, and returns

  {'status': 'CONFIRMED'|'REFUTED'|'UNKNOWN'|'ERROR', 'queries': int, 'solver_s': float,
   'obligations': int, 'twins_refuted': int, 'validated': int, 'detail': str,
   'witnesses': [{'code': str, 'what': str, 'input': ...}], 'malfunctions': [...]}
"""
from dataclasses import dataclass, field
from typing import Callable, Dict, List

REGISTRY: Dict[str, "ZCond"] = {}


@dataclass
class ZCond:
    name: str
    fn: Callable
    prop: str
    tiers: tuple
    timeout: float
    timeout_thorough: float
    bounds: str
    encodes: List[str]
    module: str = ''


def zcond(prop, bounds, encodes, tiers=('quick', 'thorough'), timeout=300.0,
          timeout_thorough=None):
    def deco(fn):
        z = ZCond(fn.__name__, fn, prop, tuple(tiers), float(timeout),
                  float(timeout_thorough or timeout), bounds, list(encodes), fn.__module__)
        REGISTRY[z.name] = z
        return fn
    return deco
