"""Check driver: runs every harness condition of one property for a tier, each in its own
worker process (CrossHair + z3 on /repo's current source), replays counterexamples on
the real code, applies the known-findings list, writes /verif/evidence/<id>.json.

usage: python -m mpgverif.runner <PROPERTY_ID> [quick|thorough] [--only NAME[,NAME]] [--jobs N]

exit 0  nothing explored violates the property (inconclusive conditions are printed
        and lower 'discharged' in the evidence; they are never counted as success)
exit 1  a replayed, not-known violation:  VIOLATION property=<id> replay=<path>
exit 3  malfunction of the checking machinery (vacuous harness, witness that does
        not replay, engine crash)
"""
import concurrent.futures as cf
import hashlib
import importlib
import json
import re
import os
import subprocess
import sys
import tempfile
import time

ROOT = os.path.dirname(os.path.dirname(os.path.abspath(__file__)))
PY = sys.executable
KNOWN_FILE = os.path.join(ROOT, 'known_findings.txt')


def load_known():
    known = []
    if os.path.exists(KNOWN_FILE):
        for line in open(KNOWN_FILE):
            line = line.strip()
            if not line.startswith('known:'):
                continue
            fields = dict(tok.split('=', 1) for tok in line.split()[1:4])
            fields['what'] = ' '.join(line.split()[4:])
            known.append(fields)
    return known


# development aid only (tools/try_patch_wt.sh): registered commands always analyse /repo
REPO = os.environ.get('MPGVERIF_REPO', '/repo')


# an exception naming a private (underscore) stand-in class of a harness, or the signature of a fake_* callable
STANDIN_GAP = re.compile(r"'_[A-Za-z]\w*'|\b_[A-Z]\w*\.\w+\(\)|\bfake_\w+\(\)|<locals>\.\w+\(\)")


def run_job(job, tmpdir):
    """job: dict(kind, module, cond, mode, timeout)"""
    out = os.path.join(tmpdir, f"{job['cond']}.{job['mode']}.json")
    if job['kind'] == 'z3':
        cmd = [PY, '-m', 'mpgverif.z3worker', job['module'], job['cond'], job['tier'], out]
    else:
        cmd = [PY, '-m', 'mpgverif.worker', job['module'], job['cond'], job['mode'],
               str(job['timeout']), out]
    env = dict(os.environ)
    env['PYTHONPATH'] = ROOT + os.pathsep + REPO
    env['PYTHONHASHSEED'] = env.get('VERIF_SEED', '0') if env.get('VERIF_SEED', '').isdigit() \
        and int(env['VERIF_SEED']) < 4294967295 else '0'
    env['MOPEPGEN_VERIF'] = '1'
    wall = job['timeout'] * 2.0 + 120
    t0 = time.time()
    try:
        p = subprocess.run(cmd, cwd=ROOT, env=env, stdout=subprocess.PIPE,
                           stderr=subprocess.STDOUT, text=True, timeout=wall)
        log = p.stdout[-3000:]
    except subprocess.TimeoutExpired as e:
        log = f'wall timeout {wall}s'
    if os.path.exists(out):
        res = json.load(open(out))
    else:
        res = {'cond': job['cond'], 'module': job['module'], 'mode': job['mode'],
               'status': 'ERROR', 'message': 'worker produced no result: ' + log,
               'num_paths': 0, 'cpu_s': 0.0}
    res['wall_s'] = round(time.time() - t0, 2)
    res['job'] = job
    return res


def replay(module, cond, args, tmpdir):
    wit = {'module': module, 'cond': cond, 'args': args}
    path = os.path.join(tmpdir, f'replay_{cond}_{time.time_ns()}.json')
    json.dump(wit, open(path, 'w'))
    env = dict(os.environ)
    env['PYTHONPATH'] = ROOT + os.pathsep + REPO
    env['MOPEPGEN_VERIF'] = '1'
    p = subprocess.run([PY, '-m', 'mpgverif.replay', path, '--json'], cwd=ROOT, env=env,
                       stdout=subprocess.PIPE, stderr=subprocess.PIPE, text=True,
                       timeout=600)
    try:
        return json.loads(p.stdout.strip().splitlines()[-1])
    except Exception:
        return {'reproduced': None, 'error': (p.stdout + p.stderr)[-2000:]}


def main(argv=None):
    argv = list(sys.argv[1:] if argv is None else argv)
    prop = argv.pop(0)
    tier = os.environ.get('VERIF_TIER', 'quick')
    only = None
    noevidence = False
    jobs_n = min(16, os.cpu_count() or 4)
    while argv:
        a = argv.pop(0)
        if a in ('quick', 'thorough'):
            tier = a
        elif a == '--only':
            only = set(argv.pop(0).split(','))
        elif a == '--jobs':
            jobs_n = int(argv.pop(0))
        elif a == '--noevidence':
            noevidence = True
    seed = int(os.environ.get('VERIF_SEED', '0') or 0)
    t_start = time.time()

    sys.path.insert(0, REPO)
    from mpgverif.harness import PROPS
    from mpgverif.cond import REGISTRY
    from mpgverif import z3cond
    for modname in PROPS[prop]:
        importlib.import_module(modname)
    conds = [c for c in REGISTRY.values() if c.prop == prop and tier in c.tiers]
    zconds = [z for z in z3cond.REGISTRY.values() if z.prop == prop and tier in z.tiers]
    if only:
        conds = [c for c in conds if c.name in only]
        zconds = [z for z in zconds if z.name in only]
    if not conds and not zconds:
        print(f'no conditions registered for {prop}/{tier}')
        return 3

    jobs = []
    for c in conds:
        to = c.timeout if tier == 'quick' else c.timeout_thorough
        jobs.append({'kind': 'ch', 'module': c.module, 'cond': c.name, 'mode': 'main',
                     'timeout': to, 'tier': tier})
        jobs.append({'kind': 'ch', 'module': c.module, 'cond': c.name, 'mode': 'twin',
                     'timeout': min(to, 300.0), 'tier': tier})
    for z in zconds:
        jobs.append({'kind': 'z3', 'module': z.module, 'cond': z.name, 'mode': 'main',
                     'timeout': z.timeout if tier == 'quick' else z.timeout_thorough,
                     'tier': tier})
    # longest first
    jobs.sort(key=lambda j: -j['timeout'] if j['mode'] == 'main' else 0)

    tmpdir = tempfile.mkdtemp(prefix=f'mpgv_{prop}_')
    results = {}
    with cf.ThreadPoolExecutor(max_workers=jobs_n) as ex:
        futs = {ex.submit(run_job, j, tmpdir): j for j in jobs}
        for f in cf.as_completed(futs):
            r = f.result()
            results[(r['cond'], r['mode'])] = r
            print(f"  [{r['status']:9s}] {r['cond']}:{r['mode']} paths={r.get('num_paths', 0)} "
                  f"cpu={r.get('cpu_s', 0)}s {(r.get('message') or '')[:160]}", flush=True)

    known = load_known()
    violations, known_hits, inconclusive, malfunctions = [], [], [], []
    confirmed, twins_refuted, samples = [], 0, []
    total_paths = 0
    solver_cpu = 0.0
    traces_validated = 0
    obligations = 0
    queries = 0

    def handle_witness(cname, module, r, expect):
        """replay a counterexample; classify."""
        if r.get('args') is None:
            malfunctions.append(f"{cname}: counterexample without evaluable arguments: "
                                f"{r.get('message', '')[:300]}")
            return
        rep = replay(module, cname, r['args'], tmpdir)
        for _ in range(3):
            # graph construction in moPepGen iterates over sets of address-hashed nodes: a defect may show in one process
            # and not in the next; a witness counts as reproduced when any of up to four replays shows it
            if rep.get('reproduced'):
                break
            rep = replay(module, cname, r['args'], tmpdir)
        if not rep.get('reproduced'):
            malfunctions.append(f"{cname}: witness {r['args']} does not reproduce on the real "
                                f"code (replay -> {rep.get('code', rep.get('error'))}); "
                                f"solver message: {r.get('message', '')[:300]}")
            return
        if rep.get('lift') is False:
            malfunctions.append(f"{cname}: kernel witness {r['args']} reproduces but its "
                                f"command-level lift does not")
            return
        code = str(rep.get('code'))
        if code in ('EXC:AttributeError', 'EXC:TypeError', 'EXC:NotImplementedError') and \
                STANDIN_GAP.search(rep.get('what', '')):
            # the implementation touched something a duck-typed stand-in of the harness does not model (e.g. after a
            # refactor that is perfectly correct): the condition cannot decide - a harness gap, never a VIOLATION
            malfunctions.append(f"{cname}: harness stand-in incomplete for the current source ({rep.get('what', '')[:200]}); "
                                f"witness {r['args']}")
            return
        tb_files = re.findall(r'File "([^"]+)"', rep.get('traceback', '') or '')
        if code in ('EXC:NameError', 'EXC:ImportError', 'EXC:ModuleNotFoundError') and tb_files and \
                tb_files[-1].startswith(ROOT):
            malfunctions.append(f"{cname}: error inside the harness itself ({rep.get('what', '')[:200]})")
            return
        for k in known:
            if k.get('property') == prop and k.get('condition') == cname and k.get('code') == code:
                known_hits.append((cname, k, r['args']))
                return
        h = hashlib.sha1(json.dumps(r['args'], sort_keys=True).encode()).hexdigest()[:10]
        rdir = os.path.join(ROOT, 'replays', prop)
        os.makedirs(rdir, exist_ok=True)
        rpath = os.path.join(rdir, f'{cname}-{h}.json')
        json.dump({'module': module, 'cond': cname, 'args': r['args'], 'code': code,
                   'what': rep.get('what', ''), 'solver_message': r.get('message', '')[:1000]},
                  open(rpath, 'w'), indent=1)
        violations.append((cname, rpath, code, rep.get('what', '')))

    for c in conds:
        obligations += 1
        rm = results[(c.name, 'main')]
        rt = results[(c.name, 'twin')]
        total_paths += rm.get('num_paths', 0) + rt.get('num_paths', 0)
        solver_cpu += rm.get('cpu_s', 0) + rt.get('cpu_s', 0)
        # -- twin
        twin_ok = False
        if rt['status'] == 'REFUTED' and rt.get('kind') == 'POST_FAIL':
            twin_ok = True
            twins_refuted += 1
            if rt.get('args') is not None:
                rep = replay(c.module, c.name, rt['args'], tmpdir)
                if rep.get('code') == 1:
                    traces_validated += 1
                else:
                    malfunctions.append(
                        f"{c.name}: reachability witness {rt['args']} returns OK under the "
                        f"environment model but {rep.get('code', rep.get('error'))} on the real code")
        elif rt['status'] in ('CONFIRMED', 'PRE_UNSAT') and rm['status'] != 'REFUTED':
            malfunctions.append(f"{c.name}: vacuous harness (twin {rt['status']})")
        elif rt['status'] == 'REFUTED':
            # the twin hit an exception: the main condition will report it too
            pass
        elif rt['status'] == 'ERROR' and rm['status'] != 'REFUTED':
            malfunctions.append(f"{c.name}: twin engine error: {rt.get('message', '')[:300]}")
        # -- main
        if rm['status'] == 'CONFIRMED':
            if c.expect == 'refuted-known':
                # a listed finding no longer occurs: report, do not fail
                print(f"NOTE property={prop} condition={c.name} listed known finding no longer occurs")
            if twin_ok:
                confirmed.append(c.name)
                samples.append({'condition': c.name, 'bounds': c.bounds, 'paths': rm['num_paths'],
                                'cpu_s': rm['cpu_s'], 'reach_witness': rt.get('args')})
            elif rt['status'] == 'UNKNOWN':
                inconclusive.append((c.name, 'reachability twin undecided'))
        elif rm['status'] == 'REFUTED':
            handle_witness(c.name, c.module, rm, c.expect)
        elif rm['status'] == 'UNKNOWN':
            inconclusive.append((c.name, f"not confirmed within {rm['job']['timeout']}s CPU "
                                         f"({rm.get('num_paths', 0)} paths)"))
        elif rm['status'] == 'PRE_UNSAT':
            malfunctions.append(f"{c.name}: unable to meet precondition")
        else:
            malfunctions.append(f"{c.name}: engine error: {rm.get('message', '')[:400]}")

    extra_discharged = 0
    for z in zconds:
        rm = results[(z.name, 'main')]
        obligations += rm.get('obligations', 1)
        if rm['status'] == 'CONFIRMED':
            extra_discharged += rm.get('obligations', 1) - 1
        else:
            extra_discharged += rm.get('discharged', 0)
        queries += rm.get('queries', 0)
        solver_cpu += rm.get('solver_s', 0)
        total_paths += rm.get('queries', 0)
        if rm['status'] == 'CONFIRMED':
            confirmed.append(z.name)
            twins_refuted += rm.get('twins_refuted', 0)
            traces_validated += rm.get('validated', 0)
            samples.append({'condition': z.name, 'bounds': z.bounds,
                            'queries': rm.get('queries', 0), 'solver_s': rm.get('solver_s', 0),
                            'detail': rm.get('detail', '')})
        elif rm['status'] == 'REFUTED':
            for w in rm.get('witnesses', []):
                code = str(w.get('code'))
                hit = None
                for k in known:
                    if k.get('property') == prop and k.get('condition') == z.name and k.get('code') == code:
                        hit = k
                if hit:
                    known_hits.append((z.name, hit, w.get('input')))
                    continue
                h = hashlib.sha1(json.dumps(w, sort_keys=True).encode()).hexdigest()[:10]
                rdir = os.path.join(ROOT, 'replays', prop)
                os.makedirs(rdir, exist_ok=True)
                rpath = os.path.join(rdir, f'{z.name}-{h}.json')
                json.dump({'module': z.module, 'cond': z.name, 'z3': True, **w}, open(rpath, 'w'), indent=1)
                violations.append((z.name, rpath, code, w.get('what', '')))
            for m in rm.get('malfunctions', []):
                malfunctions.append(f'{z.name}: {m}')
        elif rm['status'] == 'UNKNOWN':
            inconclusive.append((z.name, rm.get('message', 'solver unknown')))
        else:
            malfunctions.append(f"{z.name}: {rm.get('message', '')[:400]}")

    # ---------------- report
    for cname, k, args in known_hits:
        print(f"KNOWN-FINDING: property={prop} condition={cname} code={k['code']} {k['what']} "
              f"(witness {json.dumps(args)[:200]})")
    for cname, why in inconclusive:
        print(f"INCONCLUSIVE property={prop} condition={cname} reason={why}")
    for m in malfunctions:
        print(f"HARNESS-ERROR property={prop} {m}")
    for cname, rpath, code, what in violations:
        print(f"VIOLATION property={prop} replay={rpath}")
        print(f"  condition={cname} code={code} {what}")

    discharged = len(confirmed) + extra_discharged
    functions = sorted({f for c in conds for f in c.encodes} | {f for z in zconds for f in z.encodes})
    stubs = sorted({s for c in conds for s in c.stubs})
    nontrivial = len([s for s in samples if s.get('paths', s.get('queries', 0)) >= 2])
    evidence = {
        'property_id': prop, 'tier': tier, 'seed': seed, 'level': 'model_checking',
        'coverage': {
            'evaluations': max(total_paths, 1),
            'distinct_nontrivial': nontrivial,
            'rule': ('one evaluation = one execution path of a harness condition explored by '
                     'CrossHair and decided by z3 (or one z3 query of the regex/LIA encoders); a '
                     'condition counts as distinct+nontrivial when it was CONFIRMED over all '
                     'paths within its stated bound, explored >= 2 paths, and its reachability '
                     'twin was refuted (some path reaches the final comparison)'),
            'samples': samples[:40] or [{'note': 'no condition confirmed in this run'}],
            'obligations': obligations, 'discharged': discharged,
            'confirmed': confirmed,
            'inconclusive': [f'{n}: {w}' for n, w in inconclusive],
            'twins_refuted': twins_refuted,
            'traces_validated_against_impl': traces_validated,
            'queries_discharged': total_paths,
            'solver_time_s': round(solver_cpu, 1),
            'functions_encoded': functions,
            'bounds': {c.name: c.bounds for c in conds} | {z.name: z.bounds for z in zconds},
            'known_findings_hit': [f'{n} code={k["code"]}' for n, k, _ in known_hits],
            'checker_cmd': f'./check {prop} {tier}',
            'trusted_base': ['CrossHair 0.0.110 model of Python semantics', 'z3 (z3-solver wheel)',
                             'mpgverif/bioshim.py (Bio value classes, conformance-tested)',
                             'mpgverif/inttok.py (rendered-integer tokens)',
                             'per-harness stubs listed in assumptions', 'harness oracles'],
            'exhaustive': False,
        },
        'assumptions': ['bounded: each verdict holds only within the bounds listed per condition; '
                        'nothing is claimed outside them'] + [f'stub: {s}' for s in stubs],
        'wall_s': round(time.time() - t_start, 1),
        'violations': len(violations),
    }
    os.makedirs(os.path.join(ROOT, 'evidence'), exist_ok=True)
    if not only and not noevidence:
        with open(os.path.join(ROOT, 'evidence', f'{prop}.json'), 'w') as fh:
            json.dump(evidence, fh, indent=1)
    print(f"{prop}/{tier}: obligations={obligations} confirmed={discharged} "
          f"inconclusive={len(inconclusive)} known={len(known_hits)} violations={len(violations)} "
          f"malfunctions={len(malfunctions)} paths={total_paths} wall={evidence['wall_s']}s")
    try:
        import shutil
        shutil.rmtree(tmpdir, ignore_errors=True)
    except Exception:
        pass
    if violations:
        return 1
    if malfunctions:
        return 3
    return 0


if __name__ == '__main__':
    sys.exit(main())
