"""Helpers shared by harness modules.  Everything here must behave the same with the
Bio shim (check workers) and with the real Biopython (replay)."""
import sys

from mpgverif.cond import OK, SKIP, cond  # re-export  # noqa: F401


def under_shim():
    m = sys.modules.get('mpgverif.bioshim')
    return bool(m and m.INSTALLED)


def mkseq(points):
    """A Bio Seq from a list of code points (symbolic list under the shim)."""
    from Bio.Seq import Seq
    if under_shim():
        return Seq(points)
    return Seq(''.join(chr(c) for c in points))


def seq_points(seq):
    """List of code points of a Seq / str (no realisation under the shim)."""
    if under_shim() and hasattr(seq, '_p'):
        return seq._p
    return [ord(c) for c in str(seq)]


_COMP_PAIRS = [(65, 84), (67, 71), (66, 86), (68, 72), (75, 77), (82, 89)]   # A-T C-G B-V D-H K-M R-Y


def comp(o):
    """Complement of an upper-case IUPAC code point, branch free (oracle side)."""
    r = o
    for a, b in _COMP_PAIRS:
        r = r + (o == a) * (b - a) + (o == b) * (a - b)
    return r + (o == 85) * (65 - 85)     # U -> A


class Recorder:
    """Generic recording stub."""

    def __init__(self):
        self.calls = []

    def __call__(self, *a, **kw):
        self.calls.append((a, kw))


class NullLogger:
    def info(self, *a, **k):
        pass
    debug = warning = error = critical = exception = info


class patched:
    """Context manager: temporarily set attributes on modules/objects."""

    def __init__(self, *triples):
        self.triples = triples
        self.saved = []

    def __enter__(self):
        for obj, name, val in self.triples:
            missing = not hasattr(obj, name)
            self.saved.append((obj, name, None if missing else getattr(obj, name), missing))
            setattr(obj, name, val)
        return self

    def __exit__(self, *exc):
        for obj, name, val, missing in reversed(self.saved):
            if missing:
                try:
                    delattr(obj, name)
                except AttributeError:
                    pass
            else:
                setattr(obj, name, val)
        return False


def blank_seq(n):
    """A sequence of length n whose content is irrelevant (ORF / coordinate harnesses).
    Under the shim: a length-only Seq (no per-base work, so symbolic lengths do not fork);
    on replay: a real Seq of n 'A's."""
    from Bio.Seq import Seq
    if not under_shim():
        return Seq('A' * n)

    class BlankSeq(Seq):
        def __init__(self, length):
            self._n = length
            self._p = None

        def __len__(self):
            return self._n

        def __getitem__(self, index):
            if isinstance(index, slice):
                a = 0 if index.start is None else index.start
                b = self._n if index.stop is None else index.stop
                if a < 0 or b < 0 or (index.step not in (None, 1)):
                    raise NotImplementedError('BlankSeq: only forward non-negative slices')
                lo = a if a < self._n else self._n
                hi = b if b < self._n else self._n
                return BlankSeq(hi - lo if hi > lo else 0)
            return 'A'

        def __add__(self, other):
            return BlankSeq(self._n + len(other))

        def __radd__(self, other):
            return BlankSeq(self._n + len(other))

        def reverse_complement(self, inplace=False):
            return BlankSeq(self._n)

        def __str__(self):
            if self._n == 1:
                return 'A'
            if self._n == 0:
                return ''
            raise NotImplementedError('BlankSeq has no content')

    return BlankSeq(n)


def concretize(x, lo, hi):
    """Return a CONCRETE int equal to x (lo <= x <= hi) by forking on each value.  Used where the
    implementation performs arithmetic z3 cannot decide on symbolic operands (e.g. a / b)."""
    for v in range(lo, hi + 1):
        if x == v:
            return v
    raise ValueError('concretize: value out of range')
