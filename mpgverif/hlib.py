"""Helpers shared by harness modules.  Everything here must behave the same with the
Bio shim (check workers) and with the real Biopython (replay)."""
import sys

from mpgverif.cond import OK, SKIP, cond  # re-export  # noqa: F401


def under_shim():
    m = sys.modules.get('mpgverif.bioshim')
    return bool(m and m.INSTALLED)


def mkseq(points):
    """A Bio Seq from a list of code points (symbolic list under the shim)."""
    from Bio.Seq import Seq
    if under_shim():
        return Seq(points)
    return Seq(''.join(chr(c) for c in points))


def seq_points(seq):
    """List of code points of a Seq / str (no realisation under the shim)."""
    if under_shim() and hasattr(seq, '_p'):
        return seq._p
    return [ord(c) for c in str(seq)]


def comp(o):
    """Complement of a code point (A<->T, C<->G, identity elsewhere), branch free."""
    return o + (o == 65) * 19 - (o == 84) * 19 + (o == 67) * 4 - (o == 71) * 4


class Recorder:
    """Generic recording stub."""

    def __init__(self):
        self.calls = []

    def __call__(self, *a, **kw):
        self.calls.append((a, kw))


class NullLogger:
    def info(self, *a, **k):
        pass
    debug = warning = error = critical = exception = info


class patched:
    """Context manager: temporarily set attributes on modules/objects."""

    def __init__(self, *triples):
        self.triples = triples
        self.saved = []

    def __enter__(self):
        for obj, name, val in self.triples:
            missing = not hasattr(obj, name)
            self.saved.append((obj, name, None if missing else getattr(obj, name), missing))
            setattr(obj, name, val)
        return self

    def __exit__(self, *exc):
        for obj, name, val, missing in reversed(self.saved):
            if missing:
                try:
                    delattr(obj, name)
                except AttributeError:
                    pass
            else:
                setattr(obj, name, val)
        return False
