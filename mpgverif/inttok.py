"""Environment model 2: rendered-integer tokens (engine configuration).

Inside check worker processes the decimal rendering of a *symbolic* integer v with
0 <= v < LIMIT is modelled as the one-character string chr(OFF + v) (Unicode
private plane), and int() of such a one-character string gives v back.  The contract
relied upon is: rendering is injective, contains none of the delimiters the encoded
code splits on, and int(str(v)) == v.  Not modelled: the digits and the length of
the rendering (a negative number has no leading '-': it is one character of a second
private plane), ordering of rendered strings.  Concrete ints render
as usual (so constants such as '1' stay readable and replay is unaffected).
"""
import crosshair.core as chcore
from crosshair.libimpl import builtinslib as bl
from crosshair.tracers import NoTracing

OFF = 0xF0000
OFF_NEG = 0x100000           # renderings of -LIMIT < v < 0 (second private-use plane); no leading '-' is modelled
LIMIT = 60000
INSTALLED = False

_orig_format = bl._format
_orig_int = bl._int
_orig_repr = bl.SymbolicIntable.__repr__
_orig_str = bl._str if hasattr(bl, '_str') else None


def _tok(v):
    # v: SymbolicInt, tracing on; forks on the range test
    if v >= LIMIT or v <= -LIMIT:
        return None
    if v < 0:
        cp = OFF_NEG - v
    else:
        cp = v + OFF
    with NoTracing():
        return bl.LazyIntSymbolicStr([cp])


def tok_format(obj, format_spec=""):
    with NoTracing():
        is_sym = isinstance(obj, bl.SymbolicInt) and format_spec == ""
    if is_sym:
        t = _tok(obj)
        if t is not None:
            return t
    # called from this frame, `format` resolves to the next lower patch layer (CrossHair's own)
    return format(obj, format_spec)


def tok_int(val=0, base=bl._MISSING):
    with NoTracing():
        is_lazy = isinstance(val, bl.LazyIntSymbolicStr) and base is bl._MISSING
    if is_lazy:
        if len(val) == 1:
            cp = ord(val)
            if cp >= OFF_NEG:
                return OFF_NEG - cp
            if cp >= OFF:
                return cp - OFF
    # called from this frame, `int` resolves to the next lower patch layer (CrossHair's own)
    if base is bl._MISSING:
        return int(val)
    return int(val, base)


def _sym_repr(self):
    t = _tok(self)
    if t is not None:
        return t
    return _orig_repr(self)


TOKEN_PATCHES = {format: tok_format, int: tok_int}


def install():
    """Layer the token patches ON TOP of CrossHair's own patches for int/format (the
    patching module resolves calls made from a patch's own frame to the next lower layer)."""
    global INSTALLED
    if INSTALLED:
        return
    from crosshair.tracers import COMPOSITE_TRACER
    orig_enter = chcore.Patched.__enter__
    orig_exit = chcore.Patched.__exit__

    def enter(self):
        r = orig_enter(self)
        COMPOSITE_TRACER.patching_module.add(TOKEN_PATCHES)
        return r

    def exit_(self, exc_type, exc_val, exc_tb):
        COMPOSITE_TRACER.patching_module.pop(TOKEN_PATCHES)
        return orig_exit(self, exc_type, exc_val, exc_tb)

    chcore.Patched.__enter__ = enter
    chcore.Patched.__exit__ = exit_
    bl.SymbolicIntable.__repr__ = _sym_repr
    bl.SymbolicInt.__str__ = _sym_repr
    INSTALLED = True


def detok(s):
    """Concrete helper for witnesses: turn token characters back into digits."""
    return ''.join(str(OFF_NEG - ord(c)) if ord(c) > OFF_NEG else
                   str(ord(c) - OFF) if OFF <= ord(c) < OFF + LIMIT else c for c in s)
