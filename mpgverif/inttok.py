"""Environment model 2: rendered-integer tokens (engine configuration).

Inside check worker processes the decimal rendering of a *symbolic* integer v with
0 <= v < LIMIT is modelled as the one-character string chr(OFF + v) (Unicode
private plane), and int() of such a one-character string gives v back.  The contract
relied upon is: rendering is injective, contains none of the delimiters the encoded
code splits on, and int(str(v)) == v.  Not modelled: the digits and the length of
the rendering, negative numbers, ordering of rendered strings.  Concrete ints render
as usual (so constants such as '1' stay readable and replay is unaffected).
"""
import crosshair.core as chcore
from crosshair.libimpl import builtinslib as bl
from crosshair.tracers import NoTracing

OFF = 0xF0000
LIMIT = 60000
INSTALLED = False

_orig_format = bl._format
_orig_int = bl._int
_orig_repr = bl.SymbolicIntable.__repr__
_orig_str = bl._str if hasattr(bl, '_str') else None


def _tok(v):
    # v: SymbolicInt, tracing on; forks on the range test
    if v < 0 or v >= LIMIT:
        return None
    cp = v + OFF
    with NoTracing():
        return bl.LazyIntSymbolicStr([cp])


def tok_format(obj, format_spec=""):
    with NoTracing():
        is_sym = isinstance(obj, bl.SymbolicInt) and format_spec == ""
    if is_sym:
        t = _tok(obj)
        if t is not None:
            return t
    return _orig_format(obj, format_spec)


def tok_int(val=0, base=bl._MISSING):
    with NoTracing():
        is_lazy = isinstance(val, bl.LazyIntSymbolicStr) and base is bl._MISSING
    if is_lazy:
        if len(val) == 1:
            cp = ord(val)
            if cp >= OFF:
                return cp - OFF
    return _orig_int(val, base)


def _sym_repr(self):
    t = _tok(self)
    if t is not None:
        return t
    return _orig_repr(self)


def install():
    global INSTALLED
    if INSTALLED:
        return
    chcore._PATCH_REGISTRATIONS[format] = tok_format
    chcore._PATCH_REGISTRATIONS[int] = tok_int
    bl.SymbolicIntable.__repr__ = _sym_repr
    bl.SymbolicInt.__str__ = _sym_repr
    INSTALLED = True


def detok(s):
    """Concrete helper for witnesses: turn token characters back into digits."""
    return ''.join(str(ord(c) - OFF) if OFF <= ord(c) < OFF + LIMIT else c for c in s)
