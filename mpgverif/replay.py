"""E3: replay a solver witness against the REAL code (real Biopython, no CrossHair).

usage: python -m mpgverif.replay <witness.json> [--json]

The witness file names a harness condition and concrete argument values.  The harness
body is executed with plain Python values; the stand-ins of bioshim/inttok are NOT
installed, so everything below the harness is the real implementation.
exit 1  the violation reproduces (negative result code or exception)
exit 0  it does not reproduce (result OK/SKIP)
"""
import importlib
import json
import sys
import traceback


def run(witness):
    sys.setrecursionlimit(20000)
    mod = importlib.import_module(witness['module'])
    from mpgverif.cond import REGISTRY
    c = REGISTRY[witness['cond']]
    out = {'cond': c.name, 'args': witness['args']}
    try:
        r = c.fn(**witness['args'])
        out['result'] = r
        out['reproduced'] = isinstance(r, int) and r < 0
        out['code'] = r
        if out['reproduced']:
            out['what'] = c.codes.get(r, '')
            if c.lift is not None:
                out['lift'] = c.lift(**witness['args'])
    except Exception as e:
        out['result'] = None
        out['reproduced'] = True
        out['code'] = f'EXC:{type(e).__name__}'
        out['what'] = f'{type(e).__name__}: {e}'
        out['traceback'] = traceback.format_exc()[-3000:]
    return out


def main():
    path = sys.argv[1]
    witness = json.load(open(path))
    out = run(witness)
    if '--json' in sys.argv:
        print(json.dumps(out))
    else:
        print(f"replay {witness['cond']}({witness['args']}) -> {out['code']} "
              f"{out.get('what', '')}")
        if out.get('traceback'):
            print(out['traceback'])
    return 1 if out['reproduced'] else 0


if __name__ == '__main__':
    sys.exit(main())
