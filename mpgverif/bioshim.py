"""Environment model 1: pure-Python stand-ins for Biopython's value classes.

Installed ONLY inside check worker processes (never in /repo, never during replay):
after the real Bio.SeqIO / SeqRecord / SeqUtils were imported and before moPepGen
is imported, ``Bio.SeqFeature`` and ``Bio.Seq`` are replaced in ``sys.modules``.

Why: the real classes realise symbolic values (ExactPosition is an int subclass,
Seq copies its data into bytes), which turns CrossHair into a sampler.  The
stand-ins keep coordinates as plain attributes and sequence content as a list of
code points.  Conformance with the real classes is tested by
``mpgverif/conformance.py`` (differential test, part of setup and of every
thorough run) and every counterexample is replayed against the real Biopython.
"""
import sys
import types

import Bio
import Bio.Seq as _RealSeqMod
import Bio.SeqFeature as _RealSeqFeatureMod
import Bio.SeqIO
import Bio.SeqIO.FastaIO
import Bio.SeqIO.Interfaces
import Bio.SeqRecord
import Bio.SeqUtils
from Bio.Data import CodonTable as _CodonTable

try:
    from crosshair.libimpl.builtinslib import LazyIntSymbolicStr
    from crosshair.tracers import NoTracing, is_tracing
except Exception:  # pragma: no cover - crosshair absent
    LazyIntSymbolicStr = None

    def is_tracing():
        return False

INSTALLED = False


# --------------------------------------------------------------------------
# Bio.SeqFeature
# --------------------------------------------------------------------------
class SimpleLocation:
    """start/end/strand as plain attributes (no ExactPosition)."""

    def __init__(self, start, end, strand=None, ref=None, ref_db=None):
        if start > end:
            raise ValueError(
                f"End location ({end}) must be greater than or equal to start "
                f"location ({start})")
        self._start = start
        self._end = end
        self._strand = strand
        self.ref = ref
        self.ref_db = ref_db

    @property
    def start(self):
        return self._start

    @property
    def end(self):
        return self._end

    @property
    def strand(self):
        return self._strand

    @strand.setter
    def strand(self, value):
        if value not in (1, -1, 0, None):
            raise ValueError(f"Strand should be +1, -1, 0 or None, not {value!r}")
        self._strand = value

    @property
    def parts(self):
        return [self]

    def __len__(self):
        return self._end - self._start

    def __contains__(self, value):
        if not isinstance(value, int):
            raise ValueError(
                "Currently we only support checking for integer positions "
                f"being within a SimpleLocation, not {type(value)}")
        return not (value < self._start or value >= self._end)

    def __iter__(self):
        if self._strand == -1:
            yield from range(self._end - 1, self._start - 1, -1)
        else:
            yield from range(self._start, self._end)

    def __eq__(self, other):
        if not isinstance(other, SimpleLocation):
            return False
        return (self._start == other.start and self._end == other.end
                and self._strand == other.strand)

    def __hash__(self):
        return 11

    def __repr__(self):
        return f"SimpleLocation({self._start!r}, {self._end!r}, strand={self._strand!r})"

    def _shift(self, offset):
        return self.__class__(start=self._start + offset, end=self._end + offset,
                              strand=self._strand)

    def _flip(self, length):
        if self._strand == 1:
            flip_strand = -1
        elif self._strand == -1:
            flip_strand = 1
        else:
            flip_strand = self._strand
        return self.__class__(start=length - self._end, end=length - self._start,
                              strand=flip_strand)

    def extract(self, parent_sequence, references=None):
        f_seq = parent_sequence[self._start:self._end]
        if self._strand == -1:
            f_seq = f_seq.reverse_complement()
        return f_seq


FeatureLocation = SimpleLocation


class SeqFeature:
    def __init__(self, location=None, type="", id="<unknown id>", qualifiers=None,
                 sub_features=None):
        if location is not None and not isinstance(location, SimpleLocation):
            raise TypeError("SimpleLocation, CompoundLocation (or None) required for the location")
        self.location = location
        self.type = type
        self.id = id
        self.qualifiers = qualifiers if qualifiers is not None else {}
        if sub_features is not None:
            raise TypeError("Rather than sub_features, use a CompoundLocation")

    @property
    def strand(self):
        return self.location.strand

    @strand.setter
    def strand(self, value):
        self.location.strand = value

    def __len__(self):
        return len(self.location)

    def __contains__(self, value):
        return value in self.location

    def __iter__(self):
        return iter(self.location)

    def __bool__(self):
        return True

    def __eq__(self, other):
        return (isinstance(other, SeqFeature) and self.type == other.type
                and self.location == other.location)

    def __hash__(self):
        return 13

    def __repr__(self):
        return f"SeqFeature({self.location!r}, type={self.type!r})"

    def _shift(self, offset):
        return SeqFeature(location=self.location._shift(offset), type=self.type,
                          id=self.id, qualifiers=dict(self.qualifiers.items()))

    def _flip(self, length):
        return SeqFeature(location=self.location._flip(length), type=self.type,
                          id=self.id, qualifiers=dict(self.qualifiers.items()))

    def extract(self, parent_sequence, references=None):
        return self.location.extract(parent_sequence, references=references)


def ExactPosition(position, extension=0):
    return position


# --------------------------------------------------------------------------
# Bio.Seq
# --------------------------------------------------------------------------
_COMP_PAIRS = [(65, 84), (67, 71), (66, 86), (68, 72), (75, 77), (82, 89)]   # A-T C-G B-V D-H K-M R-Y


def _comp(o):
    """Branch-free complement of an upper-case IUPAC code point (as Bio.Seq does it);
    identity on S, W, N, X and on everything that is not a nucleotide letter."""
    r = o
    for a, b in _COMP_PAIRS:
        r = r + (o == a) * (b - a) + (o == b) * (a - b)
    return r + (o == 85) * (65 - 85)     # U -> A


def _to_points(data):
    if isinstance(data, Seq):
        return data._p
    if isinstance(data, str):
        return [ord(c) for c in data]
    if isinstance(data, (list, tuple)):
        return data
    if isinstance(data, (_RealSeqMod.Seq, _RealSeqMod.MutableSeq)):
        return [ord(c) for c in str(data)]
    if isinstance(data, (bytes, bytearray)):
        return list(data)
    raise TypeError(f"data should be a string, Seq or list of code points, not {type(data)}")


def _to_str(points):
    if LazyIntSymbolicStr is not None and is_tracing():
        with NoTracing():
            plain = type(points) in (list, tuple)
            concrete = plain and all(type(c) is int for c in points)
        if concrete:
            with NoTracing():
                return ''.join(chr(c) for c in points)
        if not plain:
            n = len(points)
            points = [points[i] for i in range(n)]
        with NoTracing():
            return LazyIntSymbolicStr(list(points))
    return ''.join(chr(c) for c in points)


_STD = _CodonTable.unambiguous_dna_by_id[1]
_FWD = dict(_STD.forward_table)
_STOPS = set(_STD.stop_codons)


def _translate_codon(a, b, c):
    """standard table; forks on the three letters."""
    codon = chr(a) + chr(b) + chr(c)
    if codon in _FWD:
        return ord(_FWD[codon])
    if codon in _STOPS:
        return 42
    return 88  # 'X'


class Seq:
    def __init__(self, data='', length=None):
        if data is None:
            raise ValueError("undefined sequences are not modelled")
        self._p = _to_points(data)

    # -- conversions ------------------------------------------------------
    def __str__(self):
        return _to_str(self._p)

    def __repr__(self):
        return f"Seq({str(self)!r})"

    def __bytes__(self):
        return bytes(self._p)

    def __len__(self):
        return len(self._p)

    def __hash__(self):
        return 7

    def __iter__(self):
        for i in range(len(self._p)):
            yield _to_str([self._p[i]])

    def __bool__(self):
        return len(self._p) > 0

    # -- indexing / concatenation ----------------------------------------
    def __getitem__(self, index):
        if isinstance(index, slice):
            return self.__class__(self._p[index])
        return _to_str([self._p[index]])

    def __add__(self, other):
        if isinstance(other, (Seq, str, _RealSeqMod.Seq)):
            return self.__class__(self._p + _to_points(other))
        return NotImplemented

    def __radd__(self, other):
        if isinstance(other, (Seq, str, _RealSeqMod.Seq)):
            return self.__class__(_to_points(other) + self._p)
        return NotImplemented

    def __mul__(self, n):
        out = []
        for _ in range(n):
            out = out + self._p
        return self.__class__(out)

    # -- comparison -------------------------------------------------------
    def __eq__(self, other):
        if isinstance(other, (Seq, str, _RealSeqMod.Seq)):
            o = _to_points(other)
            if len(self._p) != len(o):
                return False
            for i in range(len(o)):
                if self._p[i] != o[i]:
                    return False
            return True
        return NotImplemented

    def __ne__(self, other):
        r = self.__eq__(other)
        if r is NotImplemented:
            return r
        return not r

    def __lt__(self, other):
        return str(self) < str(other)

    def __le__(self, other):
        return str(self) <= str(other)

    def __gt__(self, other):
        return str(self) > str(other)

    def __ge__(self, other):
        return str(self) >= str(other)

    # -- searching --------------------------------------------------------
    def _match_at(self, sub, i):
        for j in range(len(sub)):
            if self._p[i + j] != sub[j]:
                return False
        return True

    def find(self, sub, start=None, end=None):
        sub = _to_points(sub)
        n = len(self._p)
        lo, hi, _ = slice(start, end).indices(n)
        i = lo
        while i + len(sub) <= hi:
            if self._match_at(sub, i):
                return i
            i += 1
        return -1

    def rfind(self, sub, start=None, end=None):
        sub = _to_points(sub)
        n = len(self._p)
        lo, hi, _ = slice(start, end).indices(n)
        i = hi - len(sub)
        while i >= lo:
            if self._match_at(sub, i):
                return i
            i -= 1
        return -1

    def index(self, sub, start=None, end=None):
        r = self.find(sub, start, end)
        if r < 0:
            raise ValueError("subsection not found")
        return r

    def __contains__(self, item):
        return self.find(item) >= 0

    def count(self, sub, start=None, end=None):
        sub = _to_points(sub)
        n = len(self._p)
        lo, hi, _ = slice(start, end).indices(n)
        i = lo
        k = 0
        while i + len(sub) <= hi:
            if self._match_at(sub, i):
                k += 1
                i += max(len(sub), 1)
            else:
                i += 1
        return k

    def startswith(self, prefix, start=None, end=None):
        if isinstance(prefix, tuple):
            return any(self.startswith(p, start, end) for p in prefix)
        p = _to_points(prefix)
        n = len(self._p)
        lo, hi, _ = slice(start, end).indices(n)
        if hi - lo < len(p):
            return False
        return self._match_at(p, lo)

    def endswith(self, suffix, start=None, end=None):
        if isinstance(suffix, tuple):
            return any(self.endswith(p, start, end) for p in suffix)
        p = _to_points(suffix)
        n = len(self._p)
        lo, hi, _ = slice(start, end).indices(n)
        if hi - lo < len(p):
            return False
        return self._match_at(p, hi - len(p))

    # -- stripping / splitting -------------------------------------------
    def lstrip(self, chars=None, inplace=False):
        cs = [32, 9, 10, 13, 11, 12] if chars is None else _to_points(chars)
        i = 0
        n = len(self._p)
        while i < n and any(self._p[i] == c for c in cs):
            i += 1
        return self.__class__(self._p[i:])

    def rstrip(self, chars=None, inplace=False):
        cs = [32, 9, 10, 13, 11, 12] if chars is None else _to_points(chars)
        n = len(self._p)
        i = n
        while i > 0 and any(self._p[i - 1] == c for c in cs):
            i -= 1
        return self.__class__(self._p[:i])

    def strip(self, chars=None, inplace=False):
        return self.lstrip(chars).rstrip(chars)

    def split(self, sep=None, maxsplit=-1):
        if sep is None:
            raise NotImplementedError("whitespace split not modelled")
        s = _to_points(sep)
        if len(s) == 0:
            raise ValueError("empty separator")
        out = []
        n = len(self._p)
        i = 0
        begin = 0
        while i + len(s) <= n and (maxsplit < 0 or len(out) < maxsplit):
            if self._match_at(s, i):
                out.append(self.__class__(self._p[begin:i]))
                i += len(s)
                begin = i
            else:
                i += 1
        out.append(self.__class__(self._p[begin:]))
        return out

    def upper(self, inplace=False):
        return self.__class__([c - 32 * ((c >= 97) & (c <= 122)) for c in self._p])

    def lower(self, inplace=False):
        return self.__class__([c + 32 * ((c >= 65) & (c <= 90)) for c in self._p])

    # -- biology ----------------------------------------------------------
    def complement(self, inplace=False):
        n = len(self._p)
        return self.__class__([_comp(self._p[k]) for k in range(n)])

    def reverse_complement(self, inplace=False):
        n = len(self._p)
        return self.__class__([_comp(self._p[n - 1 - k]) for k in range(n)])

    def translate(self, table="Standard", stop_symbol="*", to_stop=False, cds=False,
                  gap="-"):
        if table not in ("Standard", 1) or stop_symbol != "*" or cds:
            raise NotImplementedError("only the standard table is modelled")
        n = len(self._p)
        out = []
        for i in range(0, n - n % 3, 3):
            aa = _translate_codon(self._p[i], self._p[i + 1], self._p[i + 2])
            if to_stop and aa == 42:
                break
            out.append(aa)
        return self.__class__(out)

    def join(self, other):
        out = []
        first = True
        for item in other:
            if not first:
                out = out + self._p
            out = out + _to_points(item)
            first = False
        return self.__class__(out)


class MutableSeq(Seq):
    def __setitem__(self, index, value):
        p = list(self._p)
        if isinstance(index, slice):
            p[index] = _to_points(value)
        else:
            p[index] = _to_points(value)[0]
        self._p = p

    def __hash__(self):
        raise TypeError("unhashable type: 'MutableSeq'")


# --------------------------------------------------------------------------
def install():
    """Replace Bio.SeqFeature and Bio.Seq for this process.  Must run before
    moPepGen is imported."""
    global INSTALLED
    if INSTALLED:
        return
    if any(m == 'moPepGen' or m.startswith('moPepGen.') for m in sys.modules):
        raise RuntimeError("bioshim.install() must run before moPepGen is imported")
    feat = types.ModuleType('Bio.SeqFeature')
    feat.SimpleLocation = SimpleLocation
    feat.FeatureLocation = FeatureLocation
    feat.SeqFeature = SeqFeature
    feat.ExactPosition = ExactPosition
    feat.Location = SimpleLocation
    feat.__real__ = _RealSeqFeatureMod
    sys.modules['Bio.SeqFeature'] = feat
    Bio.SeqFeature = feat

    seqm = types.ModuleType('Bio.Seq')
    seqm.Seq = Seq
    seqm.MutableSeq = MutableSeq
    seqm._SeqAbstractBaseClass = Seq
    seqm.__real__ = _RealSeqMod
    for name in ('reverse_complement', 'complement', 'translate'):
        setattr(seqm, name, getattr(_RealSeqMod, name))
    sys.modules['Bio.Seq'] = seqm
    Bio.Seq = seqm
    # SeqRecord stays real; it type-checks its seq argument against these names
    Bio.SeqRecord.Seq = Seq
    Bio.SeqRecord.MutableSeq = MutableSeq
    INSTALLED = True
