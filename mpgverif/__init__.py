"""mpgverif: solver-based checking of moPepGen (see /verif/DESIGN.md)."""
