"""C09: the callAltTranslation command loop - which transcripts are processed, how the two flags reach the per-transcript
worker, that every returned peptide goes through the pool filter with the canonical pool and the command's cleavage
parameters, and that the command refuses to run without either flag.

Stubs: common.load_references / validate_file_format / print_start_message, call_alt_translation_main -> recorder,
aa.VariantPeptidePool -> recorder, get_logger."""
import argparse
import sys

import moPepGen.cli.call_alt_translation  # noqa: F401
from mpgverif.hlib import OK, SKIP, NullLogger, cond, patched

USE_SHIM = True
USE_TOKENS = False

cat = sys.modules['moPepGen.cli.call_alt_translation']


class _Model:
    def __init__(self, coding):
        self.is_protein_coding = coding


class _Anno:
    def __init__(self, txs):
        self.transcripts = txs


class _PoolRec:
    last = None

    def __init__(self):
        self.added = []
        self.written = 0
        _PoolRec.last = self

    def add_peptide(self, peptide, canonical_peptides, cleavage_params, skip_checking=False):
        self.added.append((peptide, canonical_peptides, cleavage_params, skip_checking))
        return True

    def write(self, path):
        self.written += 1


class _AA:
    VariantPeptidePool = _PoolRec


def _loop(c0, c1, c2, w2f, sect, fail1, misc, lo, hi):
    coding = [c0, c1, c2]
    txs = {f'T{i}': _Model(coding[i]) for i in range(3)}
    calls = []

    def fake_main(tx_id, tx_model, genome, anno, cleavage_params, w2f_reassignment, sec_truncation):
        calls.append((tx_id, w2f_reassignment, sec_truncation, cleavage_params))
        if fail1 and tx_id == 'T1':
            raise RuntimeError('boom')
        return [f'PEP_{tx_id}_a', f'PEP_{tx_id}_b']

    args = argparse.Namespace(output_path='o.fasta', cleavage_rule='trypsin', cleavage_exception='auto', miscleavage=misc,
                              min_mw=500., min_length=lo, max_length=hi, w2f_reassignment=w2f,
                              selenocysteine_termination=sect, command='callAltTranslation', index_dir=None)
    _PoolRec.last = None
    with patched((cat, 'get_logger', lambda: NullLogger()),
                 (cat.common, 'validate_file_format', lambda *a, **k: None),
                 (cat.common, 'print_start_message', lambda a: None),
                 (cat.common, 'load_references', lambda **k: ('GENOME', _Anno(txs), None, {'CANON'})),
                 (cat, 'call_alt_translation_main', fake_main), (cat, 'aa', _AA)):
        try:
            cat.call_alt_translation(args)
        except ValueError:
            if w2f or sect:
                return -1          # refused although a flag was given
            return OK if not calls and (_PoolRec.last is None or not _PoolRec.last.written) else -2
        except RuntimeError:
            if fail1 and c1:
                pool = _PoolRec.last
                return OK if pool is None or not pool.written else -7   # failure must not leave a FASTA claiming success
            return -3
    if not (w2f or sect):
        return -2                  # ran without any alternative-translation flag
    if fail1 and c1:
        return -3                  # a failing transcript was swallowed
    want = [f'T{i}' for i in range(3) if coding[i]]
    if [c[0] for c in calls] != want:
        return -4                  # processed transcripts are not exactly the coding ones
    for _, a, b, cp in calls:
        if a != w2f or b != sect:
            return -5              # flags swapped / not passed through
        if cp.miscleavage != misc or cp.min_length != lo or cp.max_length != hi or cp.enzyme != 'trypsin':
            return -5
    pool = _PoolRec.last
    exp = []
    for t in want:
        exp += [f'PEP_{t}_a', f'PEP_{t}_b']
    if [p[0] for p in pool.added] != exp:
        return -6                  # a peptide bypassed or missed the pool filter
    for _, canon, cp, skip in pool.added:
        if canon != {'CANON'} or skip or cp.miscleavage != misc or cp.min_length != lo or cp.max_length != hi:
            return -6
    if pool.written != 1:
        return -7
    return OK


CODES = {-1: 'command refused to run although a flag was given',
         -2: 'command ran (or wrote output) without --selenocysteine-termination and --w2f-reassignment',
         -3: 'a failing transcript was swallowed, or a failure appeared from nowhere',
         -4: 'processed transcripts are not exactly the protein-coding ones',
         -5: 'the two flags / the cleavage parameters do not reach the per-transcript worker unchanged',
         -6: 'a peptide bypassed the pool filter (canonical pool, limits) or was filtered with other settings',
         -7: 'FASTA not written exactly once (or written after a failure)'}


@cond('C09', bounds='3 transcripts with symbolic coding flags, both flags symbolic, second transcript may fail, UNBOUNDED '
      'symbolic miscleavage / min / max length', encodes=['moPepGen.cli.call_alt_translation.call_alt_translation'],
      stubs=['common.load_references / validate_file_format / print_start_message', 'call_alt_translation_main -> recorder',
             'aa.VariantPeptidePool -> recorder', 'get_logger'], codes=CODES, timeout=300)
def c09_cli_loop(c0: bool, c1: bool, c2: bool, w2f: bool, sect: bool, fail1: bool, misc: int, lo: int, hi: int) -> int:
    """
    post: _ >= 0
    """
    return _loop(c0, c1, c2, w2f, sect, fail1, misc, lo, hi)
