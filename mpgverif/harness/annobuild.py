"""Builders for small annotations made of REAL moPepGen model objects from (symbolic)
coordinates.  Works with the Bio shim (workers) and the real Biopython (replay)."""
from moPepGen import gtf
from moPepGen.SeqFeature import FeatureLocation
from moPepGen.gtf.GeneAnnotationModel import GeneAnnotationModel
from moPepGen.gtf.GTFSeqFeature import GTFSeqFeature
from moPepGen.gtf.TranscriptAnnotationModel import TranscriptAnnotationModel


def feat(chrom, start, end, strand, ftype, attrs=None, frame=None):
    return GTFSeqFeature(
        chrom=chrom, attributes=dict(attrs or {}),
        location=FeatureLocation(seqname=chrom, start=start, end=end, strand=strand),
        type=ftype, frame=frame, source='GENCODE')


def gene_model(gene_id, chrom, start, end, strand, tx_ids, attrs=None):
    a = {'gene_id': gene_id, 'gene_name': gene_id + 'N', 'gene_type': 'protein_coding'}
    a.update(attrs or {})
    g = GeneAnnotationModel(
        chrom=chrom, attributes=a, transcripts=list(tx_ids),
        location=FeatureLocation(seqname=chrom, start=start, end=end, strand=strand),
        type='gene', source='GENCODE')
    return g


def tx_model(tx_id, gene_id, chrom, strand, exons, cds=None, cds_frames=None, three_utr=None,
             sec=None, tags=None, coding=True, biotype='protein_coding'):
    """exons / cds / three_utr / sec: lists of (start, end) sorted by genomic start."""
    attrs = {'gene_id': gene_id, 'transcript_id': tx_id, 'gene_name': gene_id + 'N',
             'gene_type': biotype}
    if tags:
        attrs['tag'] = list(tags)
    tstart, tend = exons[0][0], exons[-1][1]
    m = TranscriptAnnotationModel(
        transcript=feat(chrom, tstart, tend, strand, 'transcript', attrs),
        exon=[feat(chrom, s, e, strand, 'exon', attrs) for s, e in exons],
        cds=[feat(chrom, s, e, strand, 'CDS', attrs,
                  frame=(cds_frames[i] if cds_frames else 0))
             for i, (s, e) in enumerate(cds or [])],
        three_utr=[feat(chrom, s, e, strand, 'three_prime_utr', attrs) for s, e in (three_utr or [])],
        selenocysteine=[feat(chrom, s, e, strand, 'selenocysteine', attrs) for s, e in (sec or [])],
        is_protein_coding=coding, transcript_id=tx_id, gene_id=gene_id)
    return m


def anno_one_gene(gstart, gend, strand, exons, chrom='chr1', gene_id='G1', tx_id='T1', **txkw):
    tm = tx_model(tx_id, gene_id, chrom, strand, exons, **txkw)
    gm = gene_model(gene_id, chrom, gstart, gend, strand, [tx_id])
    return gtf.GenomicAnnotation(genes={gene_id: gm}, transcripts={tx_id: tm}, source='GENCODE')


def exons_valid(gstart, gend, exons):
    """gene span contains the exons; exons non-empty, increasing, introns >= 1"""
    prev = None
    for s, e in exons:
        if not s < e:
            return False
        if prev is None:
            if s < gstart:
                return False
        elif not prev < s:
            return False
        prev = e
    return prev <= gend


def tx_len(exons):
    return sum(e - s for s, e in exons)


def tx_index_oracle(exons, strand, g):
    """transcript index of genomic position g, or None if not exonic (definition)."""
    off = 0
    for s, e in exons:
        if s <= g < e:
            k = off + (g - s)
            return k if strand == 1 else tx_len(exons) - 1 - k
        off += e - s
    return None


def genomic_oracle(exons, strand, t):
    """genomic position of transcript index t (definition), or None when out of range."""
    n = tx_len(exons)
    if not 0 <= t < n:
        return None
    k = t if strand == 1 else n - 1 - t
    for s, e in exons:
        if k < e - s:
            return s + k
        k -= e - s
    return None


def anno_multi(gstart, gend, strand, tx_exons, chrom='chr1', gene_id='G1'):
    """one gene with transcripts T1..Tn given by their exon lists"""
    txs = {}
    for i, exons in enumerate(tx_exons):
        txs[f'T{i + 1}'] = tx_model(f'T{i + 1}', gene_id, chrom, strand, exons)
    gm = gene_model(gene_id, chrom, gstart, gend, strand, list(txs))
    return gtf.GenomicAnnotation(genes={gene_id: gm}, transcripts=txs, source='GENCODE')
