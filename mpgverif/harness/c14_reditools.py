"""C14 (REDItools half): site placement per transcript and threshold semantics."""
from moPepGen.parser.REDItoolsParser import REDItoolsRecord
from moPepGen import gtf
from mpgverif.harness.annobuild import (anno_one_gene, exons_valid, gene_model, tx_index_oracle,
                                        tx_model)
from mpgverif.hlib import OK, SKIP, concretize, cond

USE_SHIM = True
USE_TOKENS = True

ENC = ['moPepGen.parser.REDItoolsParser.REDItoolsRecord.convert_to_variant_records',
       'moPepGen.parser.REDItoolsParser.REDItoolsRecord.get_valid_subs']


def _rec(pos1, counts, subs, gcov=-1):
    return REDItoolsRecord(region='chr1', position=pos1, reference='A', strand=1, coverage_q=10,
                           mean_quality=30.0, base_count=counts, all_subs=subs, frequency=0.5,
                           g_coverage_q=gcov, transcript_id=[('T1', 'transcript'), ('G1', 'gene')])


def _place(gs, ge, strand, exons, pos1):
    """position within the transcript span (as AnnotateTable guarantees)"""
    if not exons_valid(gs, ge, exons):
        return SKIP
    g = pos1 - 1
    if not exons[0][0] <= g < exons[-1][1]:
        return SKIP
    anno = anno_one_gene(gs, ge, strand, exons)
    recs = _rec(pos1, [0, 0, 10, 0], [('A', 'G')]).convert_to_variant_records(anno, 1, 0.0, 1, 1)
    exonic = tx_index_oracle(exons, strand, g) is not None
    if not exonic:
        return OK if recs == [] else -1       # record emitted for a transcript in which the site is intronic
    if len(recs) != 1:
        return -2                             # exonic site lost / duplicated
    r = recs[0]
    k = g - gs if strand == 1 else ge - 1 - g
    if r.location.start != k or r.location.end != k + 1:
        return -3                             # placed at the wrong gene position
    if r.ref != 'A' or r.alt != 'G' or r.type != 'RNAEditingSite' or r.attrs['TRANSCRIPT_ID'] != 'T1':
        return -4
    if r.attrs['GENOMIC_POSITION'] != f'chr1:{pos1}':
        return -5
    return OK


CODES = {-1: 'record emitted for a transcript in which the site is intronic',
         -2: 'exonic editing site lost or duplicated', -3: 'editing site placed at the wrong gene position',
         -4: 'alleles / type / transcript id wrong', -5: 'genomic position attribute wrong',
         -10: 'coverage / frequency thresholds not applied exactly'}


@cond('C14', bounds='REDItools site on a 3-exon transcript, coordinates < 59000, both strands, site anywhere '
      'within the transcript span', encodes=ENC, codes=CODES, tokens=True, timeout=300)
def c14_reditools_place(gs: int, ge: int, plus: bool, a0: int, b0: int, a1: int, b1: int, a2: int,
                        b2: int, pos1: int) -> int:
    """
    pre: 0 <= gs and ge < 59000
    post: _ >= 0
    """
    return _place(gs, ge, 1 if plus else -1, [(a0, b0), (a1, b1), (a2, b2)], pos1)


FREQS = [0.0, 0.1, 0.25, 0.5, 1.0]
FNUM = [(0, 1), (1, 10), (1, 4), (1, 2), (1, 1)]


def _thresholds(ca, cc, cg, ct, alt_i, min_alt, f_i, min_rna, min_dna, gcov_kind, gcov):
    counts = [ca, cc, cg, ct]
    total = ca + cc + cg + ct
    if total == 0:
        return SKIP
    alt = 'ACGT'[alt_i]
    g = {0: -1, 1: None, 2: gcov}[gcov_kind]
    got = _rec(5, counts, [('A', alt)], g).get_valid_subs(min_alt, FREQS[f_i], min_rna, min_dna)
    num, den = FNUM[f_i]
    want = total >= min_rna
    if gcov_kind == 1:
        want = False
    elif gcov_kind == 2:
        want = want and gcov >= min_dna
    rc = counts[alt_i]
    want = want and rc >= min_alt and rc * den >= num * total      # exact rational frequency test
    return OK if (got == [('A', alt)]) == want and (got == [] or got == [('A', alt)]) else -10


CNT = list(range(0, 8))


@cond('C14', bounds='coverage thresholds: reference and ALT read counts 0..7 (each value its own path because the '
      'implementation divides by the total count), UNBOUNDED symbolic thresholds (min ALT reads, min RNA '
      'coverage, min DNA coverage with DNA coverage -1 / missing / value), frequency cut-off 0', encodes=ENC,
      codes=CODES, tokens=True, timeout=600)
def c14_reditools_coverage(cr_i: int, calt_i: int, min_alt: int, min_rna: int, min_dna: int,
                           gcov_kind: int, gcov: int) -> int:
    """
    pre: 0 <= cr_i <= 7 and 0 <= calt_i <= 7
    pre: 0 <= gcov_kind <= 2
    pre: 0 <= gcov
    post: _ >= 0
    """
    return _thresholds(concretize(cr_i, 0, 7), 0, concretize(calt_i, 0, 7), 0, 2, min_alt, 0, min_rna, min_dna, gcov_kind, gcov)


@cond('C14', bounds='frequency cut-off in {0, 0.1, 0.25, 0.5, 1.0} against the exact rational test: reference and '
      'ALT read counts 0..7, coverage thresholds neutral', encodes=ENC, codes=CODES, tokens=True, timeout=400)
def c14_reditools_frequency(cr_i: int, calt_i: int, f_i: int) -> int:
    """
    pre: 0 <= cr_i <= 7 and 0 <= calt_i <= 7
    pre: 0 <= f_i <= 4
    post: _ >= 0
    """
    return _thresholds(concretize(cr_i, 0, 7), 0, concretize(calt_i, 0, 7), 0, 2, 0, f_i, 0, 0, 0, 0)


def _two_genes(g1s, g1e, plus1, g2s, g2e, plus2, x0, x1, y0, y1, pos1):
    """two (possibly overlapping) genes, each with a 2-exon transcript listed for the site"""
    s1, s2 = (1 if plus1 else -1), (1 if plus2 else -1)
    ex1 = [(g1s, x0), (x1, g1e)]
    ex2 = [(g2s, y0), (y1, g2e)]
    if not (exons_valid(g1s, g1e, ex1) and exons_valid(g2s, g2e, ex2)):
        return SKIP
    g = pos1 - 1
    if not (g1s <= g < g1e and g2s <= g < g2e):
        return SKIP
    anno = gtf.GenomicAnnotation(
        genes={'G1': gene_model('G1', 'chr1', g1s, g1e, s1, ['T1']),
               'G2': gene_model('G2', 'chr1', g2s, g2e, s2, ['T2'])},
        transcripts={'T1': tx_model('T1', 'G1', 'chr1', s1, ex1), 'T2': tx_model('T2', 'G2', 'chr1', s2, ex2)},
        source='GENCODE')
    rec = REDItoolsRecord(region='chr1', position=pos1, reference='A', strand=1, coverage_q=10,
                          mean_quality=30.0, base_count=[0, 0, 10, 0], all_subs=[('A', 'G')], frequency=0.5,
                          g_coverage_q=-1, transcript_id=[('T1', 'transcript'), ('T2', 'transcript')])
    recs = rec.convert_to_variant_records(anno, 1, 0.0, 1, 1)
    want = []
    for tx, gid, gs, ge, st, ex in (('T1', 'G1', g1s, g1e, s1, ex1), ('T2', 'G2', g2s, g2e, s2, ex2)):
        if tx_index_oracle(ex, st, g) is not None:
            want.append((tx, gid, g - gs if st == 1 else ge - 1 - g, st))
    if len(recs) != len(want):
        return -2
    for r, (tx, gid, k, st) in zip(recs, want):
        if r.attrs['TRANSCRIPT_ID'] != tx or r.location.seqname != gid:
            return -6                         # record attributed to the wrong gene / transcript
        if r.location.start != k or r.location.end != k + 1:
            return -3
        if r.attrs['STRAND'] != st:
            return -7
    return OK


CODES[-6] = 'record attributed to the wrong gene or transcript'
CODES[-7] = 'STRAND attribute is not the strand of the transcript\'s own gene'


@cond('C14', bounds='REDItools site listed for transcripts of TWO genes (any overlap, any strands, 2 exons each), '
      'coordinates < 59000', encodes=ENC, codes=CODES, tokens=True, timeout=400)
def c14_reditools_two_genes(g1s: int, g1e: int, plus1: bool, g2s: int, g2e: int, plus2: bool, x0: int,
                            x1: int, y0: int, y1: int, pos1: int) -> int:
    """
    pre: 0 <= g1s and g1e < 59000 and 0 <= g2s and g2e < 59000
    post: _ >= 0
    """
    return _two_genes(g1s, g1e, plus1, g2s, g2e, plus2, x0, x1, y0, y1, pos1)


def _multi_subs(cc, cg, ct, min_alt, f_i, order):
    """site with reference A (10 reads) and THREE listed substitutions A>C, A>G, A>T in every order: each substitution is
    accepted or rejected on its own read count / frequency, whatever comes before it in AllSubs"""
    counts = [10, cc, cg, ct]
    total = sum(counts)
    perm = [[0, 1, 2], [0, 2, 1], [1, 0, 2], [1, 2, 0], [2, 0, 1], [2, 1, 0]][order]
    subs = [('A', 'CGT'[i]) for i in perm]
    got = _rec(5, counts, subs, -1).get_valid_subs(min_alt, FREQS[f_i], 0, 0)
    num, den = FNUM[f_i]
    want = []
    for ref, alt in subs:
        rc = counts['ACGT'.index(alt)]
        if rc >= min_alt and rc * den >= num * total:
            want.append((ref, alt))
    return OK if got == want else -10


@cond('C14', bounds='REDItools site with three listed substitutions in every order; ALT read counts in {0, 2, 5} each, '
      'UNBOUNDED symbolic --min-coverage-alt, frequency cut-off in {0, 0.1, 0.5}', encodes=ENC, codes=CODES, tokens=True,
      timeout=600)
def c14_reditools_multi_subs(cc: int, cg: int, ct: int, min_alt: int, f_i: int, order: int) -> int:
    """
    pre: 0 <= cc <= 2 and 0 <= cg <= 2 and 0 <= ct <= 2
    pre: 0 <= f_i <= 2 and 0 <= order <= 5
    post: _ >= 0
    """
    lv = [0, 2, 5]
    return _multi_subs(lv[concretize(cc, 0, 2)], lv[concretize(cg, 0, 2)], lv[concretize(ct, 0, 2)], min_alt,
                       [0, 1, 3][concretize(f_i, 0, 2)], concretize(order, 0, 5))
