"""C13: GVF text round trips (variant and circRNA records), byte-offset index and
stale-index rejection.  Rendered integers use the token model (see mpgverif/inttok.py)."""
import ast
import glob
import os
from typing import List

import moPepGen.seqvar.GVFIndex as gvfindex
import sys
import moPepGen.seqvar.VariantRecordPoolOnDisk  # noqa: F401
from moPepGen.SeqFeature import FeatureLocation, SeqFeature
from moPepGen.circ import io as circ_io
from moPepGen.circ.CircRNA import CircRNAModel
from moPepGen.seqvar import io as gvf_io
from moPepGen.seqvar.GVFIndex import GVFPointer
from moPepGen.seqvar.VariantRecord import VariantRecord
from mpgverif.hlib import OK, SKIP, cond, patched, under_shim, concretize

USE_SHIM = True
USE_TOKENS = True

vpod = sys.modules['moPepGen.seqvar.VariantRecordPoolOnDisk']

ENC = ['moPepGen.seqvar.VariantRecord.VariantRecord.to_string/info',
       'moPepGen.seqvar.io.line_to_variant_record/parse_attrs']


def mkstr(points):
    if under_shim():
        from mpgverif.bioshim import _to_str
        return _to_str(points)
    return ''.join(chr(c) for c in points)


def parser_attr_keysets():
    """attribute-key sets the parsers emit, read from /repo's source at run time"""
    import moPepGen
    root = os.path.dirname(moPepGen.__file__)
    files = glob.glob(os.path.join(root, 'parser', '**', '*.py'), recursive=True) + \
        [os.path.join(root, 'seqvar', 'SplicingJunction.py')]
    out = set()
    for f in files:
        for n in ast.walk(ast.parse(open(f).read())):
            if isinstance(n, ast.Assign) and isinstance(n.targets[0], ast.Name) \
                    and n.targets[0].id == 'attrs' and isinstance(n.value, ast.Dict):
                out.add(tuple(k.value for k in n.value.keys if isinstance(k, ast.Constant)))
    return out


KNOWN_KEYS = {'TRANSCRIPT_ID', 'GENOMIC_POSITION', 'GENE_SYMBOL', 'ACCEPTER_GENE_ID',
              'ACCEPTER_TRANSCRIPT_ID', 'ACCEPTER_SYMBOL', 'ACCEPTER_POSITION',
              'ACCEPTER_GENOMIC_POSITION', 'STRAND', 'DONOR_START', 'DONOR_END', 'DONOR_GENE_ID',
              'COORDINATE', 'START', 'END'}
NEW_KEYS = sorted({k for ks in parser_attr_keysets() for k in ks} - KNOWN_KEYS)


def _roundtrip(rec, int_keys, str_keys):
    """write -> parse -> write; compare text and fields.  returns result code"""
    line = rec.to_string()
    back = gvf_io.line_to_variant_record(line)
    if back.location.start != rec.location.start or back.location.end != rec.location.end:
        return -1
    if back.location.seqname != rec.location.seqname or back.id != rec.id:
        return -2
    if rec.alt.startswith('<'):
        pass                       # symbolic alt is rendered as <TYPE>; ref is its first base
    else:
        if back.ref != rec.ref or back.alt != rec.alt:
            return -3
    for k in int_keys + str_keys:
        if k not in back.attrs:
            return -6              # an attribute was lost
    for k in int_keys:
        if int(back.attrs[k]) != rec.attrs[k]:
            return -4              # position attribute shifted by the round trip
    for k in str_keys:
        if back.attrs[k] != rec.attrs[k]:
            return -5
    if set(back.attrs) != set(rec.attrs):
        return -6
    if back.to_string() != line:
        return -7                  # text not a fixpoint
    return OK


CODES = {-1: 'start/end changed by the GVF round trip', -2: 'seqname or id changed',
         -3: 'REF/ALT changed', -4: 'a position attribute changed (1-based/0-based shift not cancelled)',
         -5: 'a string attribute changed', -6: 'attribute set changed',
         -7: 'writing the parsed record does not reproduce the identical line',
         -20: 'a parser emits an attribute key this harness does not know (extend KNOWN_KEYS)'}


def _small(kind, start, ref, alt, gpos, no_symbol=False):
    """kind 0 SNV, 1 INDEL, 2 MNV, 3 RNAEditingSite"""
    n = len(ref)
    if kind in (0, 3) and not (len(ref) == 1 and len(alt) == 1):
        return SKIP
    if kind == 1 and not ((len(ref) == 1) != (len(alt) == 1)):
        return SKIP
    if kind == 2 and not (len(ref) >= 2 and len(alt) >= 2):
        return SKIP
    _type = ['SNV', 'INDEL', 'MNV', 'RNAEditingSite'][kind]
    # a gene without gene_name in the GTF is written with an empty GENE_SYMBOL value
    attrs = {'TRANSCRIPT_ID': 'T1', 'GENOMIC_POSITION': f'chr1:{gpos}-{gpos + n}', 'GENE_SYMBOL': '' if no_symbol else 'SYM'}
    if kind == 3:
        attrs['STRAND'] = -1
    rec = VariantRecord(FeatureLocation(seqname='G1', start=start, end=start + n),
                        mkstr(ref), mkstr(alt), _type, f'{_type}-{start + 1}', attrs)
    r = _roundtrip(rec, [], ['TRANSCRIPT_ID', 'GENE_SYMBOL'])
    if r != OK:
        return r
    if NEW_KEYS:
        return -20
    return OK


@cond('C13', bounds='SNV / INDEL / MNV / RNAEditingSite records: REF, ALT any A-Z strings of length '
      '<= 2, position < 59000 (token), parser attribute set, gene symbol present or empty', encodes=ENC, codes=CODES, tokens=True,
      timeout=500)
def c13_line_small(kind: int, start: int, ref: List[int], alt: List[int], gpos: int, no_symbol: bool) -> int:
    """
    pre: 0 <= kind <= 3
    pre: 0 <= start < 59000 and 0 <= gpos < 59000
    pre: 1 <= len(ref) <= 2 and 1 <= len(alt) <= 2
    pre: all(65 <= c <= 90 for c in ref) and all(65 <= c <= 90 for c in alt)
    post: _ >= 0
    """
    return _small(kind, start, ref, alt, gpos, no_symbol)


def _structural(kind, start, end, ds, de, ap, base):
    """kind 0 Deletion, 1 Insertion, 2 Substitution, 3 Fusion; all coordinates symbolic"""
    ref = mkstr([base])
    if kind == 0:
        attrs = {'TRANSCRIPT_ID': 'T1', 'START': start, 'END': end, 'GENE_SYMBOL': 'S',
                 'GENOMIC_POSITION': 'chr1:5:9'}
        rec = VariantRecord(FeatureLocation(seqname='G1', start=start, end=end), ref, '<DEL>',
                            'Deletion', 'SE_1', attrs)
        return _roundtrip(rec, ['START', 'END'], ['TRANSCRIPT_ID', 'GENE_SYMBOL', 'GENOMIC_POSITION'])
    if kind == 1:
        attrs = {'TRANSCRIPT_ID': 'T1', 'DONOR_GENE_ID': 'G1', 'DONOR_START': ds, 'DONOR_END': de,
                 'GENE_SYMBOL': 'S', 'GENOMIC_POSITION': 'chr1:5:9', 'COORDINATE': 'gene'}
        rec = VariantRecord(FeatureLocation(seqname='G1', start=start, end=start + 1), ref, '<INS>',
                            'Insertion', 'RI_1', attrs)
        return _roundtrip(rec, ['DONOR_START', 'DONOR_END'],
                          ['TRANSCRIPT_ID', 'GENE_SYMBOL', 'DONOR_GENE_ID', 'COORDINATE'])
    if kind == 2:
        attrs = {'TRANSCRIPT_ID': 'T1', 'START': start, 'END': end, 'DONOR_START': ds,
                 'DONOR_END': de, 'DONOR_GENE_ID': 'G1', 'GENE_SYMBOL': 'S',
                 'GENOMIC_POSITION': 'chr1:5:9'}
        rec = VariantRecord(FeatureLocation(seqname='G1', start=start, end=end), ref, '<SUB>',
                            'Substitution', 'MXE_1', attrs)
        return _roundtrip(rec, ['START', 'END', 'DONOR_START', 'DONOR_END'],
                          ['TRANSCRIPT_ID', 'GENE_SYMBOL', 'DONOR_GENE_ID'])
    attrs = {'TRANSCRIPT_ID': 'T1', 'GENE_SYMBOL': 'S', 'GENOMIC_POSITION': 'chr1:7',
             'ACCEPTER_GENE_ID': 'G2', 'ACCEPTER_TRANSCRIPT_ID': 'T2', 'ACCEPTER_SYMBOL': 'S2',
             'ACCEPTER_POSITION': ap, 'ACCEPTER_GENOMIC_POSITION': 'chr2:9'}
    rec = VariantRecord(FeatureLocation(seqname='G1', start=start, end=start + 1), ref, '<FUSION>',
                        'Fusion', 'FUSION-G1:7-G2:9', attrs)
    return _roundtrip(rec, ['ACCEPTER_POSITION'],
                      ['TRANSCRIPT_ID', 'ACCEPTER_GENE_ID', 'ACCEPTER_TRANSCRIPT_ID', 'ACCEPTER_SYMBOL',
                       'ACCEPTER_GENOMIC_POSITION'])


@cond('C13', bounds='Deletion / Insertion / Substitution / Fusion records with the attribute sets of the '
      'rMATS and fusion parsers; every coordinate an independent symbolic integer < 59000',
      encodes=ENC, codes=CODES, tokens=True, timeout=300)
def c13_line_structural(kind: int, start: int, end: int, ds: int, de: int, ap: int, base: int) -> int:
    """
    pre: 0 <= kind <= 3
    pre: 0 <= start < end < 59000
    pre: 0 <= ds < de < 59000 and 0 <= ap < 59000
    pre: 65 <= base <= 90
    post: _ >= 0
    """
    return _structural(kind, start, end, ds, de, ap, base)


# --------------------------------------------------------------------------
# circRNA
# --------------------------------------------------------------------------
def _circ(n, s0, l0, g0, l1, g1, l2, intron_mask, gpos, descending=False):
    lens = [l0, l1, l2][:n]
    gaps = [0, g0, g1][:n]
    frags = []
    pos = s0
    for i in range(n):
        pos += gaps[i]
        frags.append(SeqFeature(chrom='G1', attributes={},
                                location=FeatureLocation(seqname='G1', start=pos, end=pos + lens[i]),
                                type='exon'))
        pos += lens[i]
    if descending:
        frags.reverse()            # parseCIRCexplorer lists the fragments of a minus-strand gene in descending order
    introns = [i + 1 for i in range(n) if (intron_mask >> i) & 1]
    m = CircRNAModel('T1', frags, introns, 'CIRC-T1-E1-E2', 'G1', 'SYM', f'chr1:{gpos}')
    line = m.to_string()
    b = circ_io.line_to_circ_model(line)
    if len(b.fragments) != n:
        return -1
    for i in range(n):
        if b.fragments[i].location.start != frags[i].location.start \
                or b.fragments[i].location.end != frags[i].location.end:
            return -2
        if (b.fragments[i].type == 'intron') != ((i + 1) in introns):
            return -3
    if b.intron != introns or b.id != m.id or b.gene_id != 'G1' or b.transcript_id != 'T1' \
            or b.gene_name != 'SYM':
        return -4
    if b.genomic_position != m.genomic_position:
        return -5                  # genomic position lost
    if b.to_string() != line:
        return -6
    return OK


CODES_C = {-1: 'number of fragments changed', -2: 'fragment interval changed', -3: 'intron flags changed',
           -4: 'ids changed', -5: 'genomic position of the circRNA lost on the round trip',
           -6: 'text not a fixpoint'}


@cond('C13', bounds='circRNA record with 1..3 fragments (symbolic offsets and lengths < 5000), every '
      'intron mask, symbolic genomic position', encodes=['moPepGen.circ.CircRNA.CircRNAModel.to_string',
      'moPepGen.circ.io.line_to_circ_model'], codes=CODES_C, tokens=True, timeout=400)
def c13_circ_line(n: int, s0: int, l0: int, g0: int, l1: int, g1: int, l2: int, mask: int,
                  gpos: int) -> int:
    """
    pre: 1 <= n <= 3
    pre: 0 <= s0 < 5000 and 1 <= l0 < 5000 and 1 <= l1 < 5000 and 1 <= l2 < 5000
    pre: 1 <= g0 < 5000 and 1 <= g1 < 5000
    pre: 0 <= mask <= 7 and 0 <= gpos < 59000
    post: _ >= 0
    """
    return _circ(n, s0, l0, g0, l1, g1, l2, mask, gpos)


@cond('C13', bounds='circRNA record with 2..3 fragments stored in DESCENDING gene order (negative offsets, as written for '
      'minus-strand genes), symbolic offsets and lengths < 5000, every intron mask', encodes=[
      'moPepGen.circ.CircRNA.CircRNAModel.to_string', 'moPepGen.circ.io.line_to_circ_model'], codes=CODES_C, tokens=True,
      timeout=400)
def c13_circ_line_descending(n: int, s0: int, l0: int, g0: int, l1: int, g1: int, l2: int, mask: int,
                             gpos: int) -> int:
    """
    pre: 2 <= n <= 3
    pre: 0 <= s0 < 5000 and 1 <= l0 < 5000 and 1 <= l1 < 5000 and 1 <= l2 < 5000
    pre: 1 <= g0 < 5000 and 1 <= g1 < 5000
    pre: 0 <= mask <= 7 and 0 <= gpos < 59000
    post: _ >= 0
    """
    return _circ(n, s0, l0, g0, l1, g1, l2, mask, gpos, True)


# --------------------------------------------------------------------------
# byte-offset index
# --------------------------------------------------------------------------
class _Rec:
    def __init__(self, key, uid):
        self.transcript_id = key
        self.uid = uid


class _Text:
    """decoded line: its length counts characters, not bytes"""

    def __init__(self, nchars, rec):
        self.nchars, self.rec = nchars, rec

    def __len__(self):
        return self.nchars

    def startswith(self, s):
        return self.rec is None

    def rstrip(self):
        return self


class _Line:
    """binary line: n bytes, of which `extra` belong to multi-byte characters"""

    def __init__(self, n, rec, extra=0):
        self.n, self.rec, self.extra = n, rec, extra

    def __len__(self):
        return self.n

    def decode(self, enc):
        return _Text(self.n - self.extra, self.rec)


class _Buffer:
    """what handle.read() returns: the lines covered by a byte range"""

    def __init__(self, lines, final_newline=True, stripped=False):
        self.lines = lines
        self.final_newline, self.stripped = final_newline, stripped

    def decode(self, enc):
        return self

    def rstrip(self):
        return _Buffer(self.lines, self.final_newline, True)

    def split(self, sep):
        # 'l1\nl2\n'.split('\n') ends with an empty string unless the text was stripped or the file's last
        # line has no newline
        if self.final_newline and not self.stripped:
            return self.lines + [_Line(0, None)]
        return self.lines


class _Handle:
    """binary GVF handle over fake lines with symbolic byte lengths"""

    def __init__(self, lines, no_final_newline=False):
        self.lines = lines
        self.pos = 0
        self.misaligned = False
        self.no_final_newline = no_final_newline

    def __iter__(self):
        return iter(self.lines)

    def tell(self):
        return self.pos

    def seek(self, off, whence=0):
        self.pos = self.pos + off if whence == 1 else off

    def read(self, n):
        a, b = self.pos, self.pos + n
        out = []
        off = 0
        for ln in self.lines:
            s, e = off, off + ln.n
            if s >= a and e <= b:
                out.append(ln)
            elif e > a and s < b:
                self.misaligned = True     # range cuts through a line
            off = e
        self.pos = b
        last = len(out) > 0 and out[-1] is self.lines[-1]
        return _Buffer(out, not (self.no_final_newline and last))


KEYS = ['TA', 'TB', 'TC']


def _index(keys, lens, ncomment, use_idx_file, mb=0, no_final_newline=False):
    n = len(keys)
    if len(lens) < n + ncomment:
        return SKIP
    for i in range(n + ncomment):
        if lens[i] < 1:
            return SKIP
    if not 0 <= mb < lens[0]:
        return SKIP
    lines = [_Line(lens[i], None, mb if i == 0 else 0) for i in range(ncomment)]
    for i in range(n):
        if not 0 <= keys[i] <= 2:
            return SKIP
        lines.append(_Line(lens[ncomment + i], _Rec(KEYS[keys[i]], i), mb if ncomment + i == 0 else 0))
    h = _Handle(lines, no_final_newline)
    with patched((gvfindex.io, 'line_to_variant_record', lambda line: line.rec)):
        ptrs = list(gvfindex.iterate_pointer(h, is_circ_rna=False))
        if use_idx_file:
            # what indexGVF writes and VariantRecordPoolOnDisk.load_index reads back
            idx_lines = ['# CHECKSUM=x\n'] + [p.to_line() + '\n' for p in ptrs]
            ptrs2 = list(GVFPointer.parse(idx_lines, h, False))
            if len(ptrs2) != len(ptrs):
                return -1
            for p, q in zip(ptrs, ptrs2):
                if (p.key, p.start, p.end) != (q.key, q.start, q.end):
                    return -2      # .idx text does not reproduce the pointer
            ptrs = ptrs2
        # records gathered per key through the pointers == linear scan
        got = {}
        for p in ptrs:
            for r in p.load():
                got.setdefault(p.key, []).append(r.uid)
                if r.transcript_id != p.key:
                    return -3      # pointer of one transcript covers another transcript's line
    if h.misaligned:
        return -4                  # byte range does not fall on line boundaries
    want = {}
    for i in range(n):
        want.setdefault(KEYS[keys[i]], []).append(i)
    if got != want:
        return -5                  # indexed access != linear scan
    return OK


CODES_I = {-1: 'idx file has a different number of pointers', -2: '.idx line does not reproduce the pointer',
           -3: "a pointer covers another transcript's record", -4: 'a pointer byte range cuts through a line',
           -5: 'records obtained through the index differ from a linear scan'}
ENC_I = ['moPepGen.seqvar.GVFIndex.iterate_pointer', 'moPepGen.seqvar.GVFIndex.GVFPointer.__iter__/load',
         'moPepGen.seqvar.GVFIndex.GVFPointer.to_line/parse']


@cond('C13', bounds='GVF of <= 1 comment line + <= 4 records over 3 transcripts in any grouping, UNBOUNDED '
      'symbolic byte lengths, first line with a symbolic number of multi-byte characters; pointers generated on open', encodes=ENC_I, codes=CODES_I, tokens=True,
      stubs=['seqvar.io.line_to_variant_record -> pre-parsed record of the fake line',
             'binary handle -> fake lines with symbolic byte lengths'], timeout=400)
def c13_index_scan(keys: List[int], lens: List[int], ncomment: int, mb: int) -> int:
    """
    pre: 1 <= len(keys) <= 4
    pre: len(lens) == 5
    pre: 0 <= ncomment <= 1
    post: _ >= 0
    """
    return _index(keys, lens, ncomment, False, mb)


@cond('C13', bounds='as c13_index_scan (<= 3 records, no multi-byte characters) with the LAST line of the file ending '
      'with or without a newline (symbolic), pointers generated on open or read back from .idx text',
      encodes=ENC_I, codes=CODES_I, tokens=True, stubs=['as c13_index_scan; the text returned by read() splits '
      'like real text: a trailing empty piece unless stripped or the last line has no newline'], timeout=400)
def c13_index_final_newline(keys: List[int], lens: List[int], ncomment: int, no_nl: bool, use_idx: bool) -> int:
    """
    pre: 1 <= len(keys) <= 3
    pre: len(lens) == 4
    pre: 0 <= ncomment <= 1
    pre: all(x < 10000 for x in lens)
    post: _ >= 0
    """
    return _index(keys, lens, ncomment, use_idx, 0, no_nl)


@cond('C13', bounds='as c13_index_scan with byte lengths < 10000 and the pointers written to and read '
      'back from .idx text (token model for the offsets)', encodes=ENC_I, codes=CODES_I, tokens=True,
      stubs=['as c13_index_scan'], timeout=400)
def c13_index_idxfile(keys: List[int], lens: List[int], ncomment: int) -> int:
    """
    pre: 1 <= len(keys) <= 3
    pre: len(lens) == 4
    pre: all(1 <= x < 10000 for x in lens)
    pre: 0 <= ncomment <= 1
    post: _ >= 0
    """
    return _index(keys, lens, ncomment, True)


# --------------------------------------------------------------------------
# stale index
# --------------------------------------------------------------------------
class _TextFile:
    def __init__(self, lines):
        self.lines = lines

    def __enter__(self):
        return self

    def __exit__(self, *a):
        return False

    def __iter__(self):
        return iter(self.lines)


def _validate(actual, recorded, layout):
    """layout 0: '# CHECKSUM=' first line; 1: another comment first, then checksum;
    2: no checksum line; 3: checksum line after the first pointer line"""
    digests = ['d0', 'd1']
    cks = f'# CHECKSUM={digests[recorded]}\n'
    lines = {0: [cks, 'T1\t0\t5\n'], 1: ['# note\n', cks, 'T1\t0\t5\n'],
             2: ['# note\n', 'T1\t0\t5\n'], 3: ['T1\t0\t5\n', cks]}[layout]

    def fake_open(path, mode='r'):
        return _TextFile(lines if mode == 'rt' else [])

    with patched((vpod, 'open', fake_open), (vpod, 'check_sha512', lambda h: digests[actual])):
        try:
            ok = vpod.VariantRecordPoolOnDisk.validate_gvf_index('x.gvf', 'x.gvf.idx')
        except ValueError:
            ok = False
    want = layout in (0, 1) and actual == recorded
    if ok and not want:
        return -1                  # stale / unverifiable index accepted
    if want and not ok:
        return -2                  # matching index rejected
    return OK


@cond('C13', bounds='every combination of (actual digest, recorded digest) over 2 values x 4 idx-file '
      'layouts (checksum first / after a comment / missing / after the first pointer)',
      encodes=['moPepGen.seqvar.VariantRecordPoolOnDisk.VariantRecordPoolOnDisk.validate_gvf_index'],
      stubs=['check_sha512 -> symbolic digest', 'open -> in-memory idx lines'],
      codes={-1: 'an .idx that does not correspond to the GVF content was accepted',
             -2: 'a matching .idx was rejected'}, tokens=True, timeout=120)
def c13_stale_index(actual: int, recorded: int, layout: int) -> int:
    """
    pre: 0 <= actual <= 1 and 0 <= recorded <= 1 and 0 <= layout <= 3
    post: _ >= 0
    """
    return _validate(actual, recorded, layout)


# --------------------------------------------------------------------------
# several GVF files: records of one transcript gathered through pointers of all files (C06 / C13)
# --------------------------------------------------------------------------
class _Meta:
    def is_circ_rna(self):
        return False


def _multi_file(ka, kb, la, lb, swap):
    """file A with keys ka (<=2 records), file B with keys kb (<=2 records); swap = file order"""
    from moPepGen.seqvar.VariantRecordPoolOnDisk import VariantRecordPoolOnDisk
    files = []
    uid = 0
    for keys, lens in ((ka, la), (kb, lb)):
        lines = [_Line(lens[0], None)]                     # one header line per file
        for i, k in enumerate(keys):
            if not 0 <= k <= 1:
                return SKIP
            if lens[i + 1] < 1:
                return SKIP
            lines.append(_Line(lens[i + 1], _Rec(KEYS[k], uid)))
            uid += 1
        if lens[0] < 1:
            return SKIP
        files.append(_Handle(lines))
    order = [1, 0] if swap else [0, 1]
    pool = VariantRecordPoolOnDisk(gvf_files=['a.gvf', 'b.gvf'])

    class _H:
        def __enter__(self):
            return self

        def __exit__(self, *a):
            return False

    with patched((gvfindex.io, 'line_to_variant_record', lambda line: line.rec),
                 (vpod, 'open', lambda *a, **k: _H()),
                 (vpod.GVFMetadata, 'parse', lambda h: _Meta())):
        for i in order:
            pool.generate_index('f.gvf', files[i])
        got = {}
        for key, ptrs in pool.pointers.items():
            recs = []
            for p in ptrs:
                recs += p.load()
            got[key] = sorted(r.uid for r in recs)
            if any(r.transcript_id != key for r in recs):
                return -3
    if any(h.misaligned for h in files):
        return -4
    want = {}
    uid = 0
    for keys in (ka, kb):
        for k in keys:
            want.setdefault(KEYS[k], []).append(uid)
            uid += 1
    if got != want:
        return -5                  # records gathered through the pointers of all files != union of the files
    return OK


@cond('C06', bounds='2 GVF files with <= 2 records each over 2 transcripts (any grouping / split), one header line '
      'each, UNBOUNDED symbolic byte lengths, both file orders', encodes=ENC_I + [
      'moPepGen.seqvar.VariantRecordPoolOnDisk.VariantRecordPoolOnDisk.generate_index'], codes=CODES_I,
      tokens=True, stubs=['as c13_index_scan', 'open / GVFMetadata.parse -> in-memory'], timeout=400)
def c06_multi_file_pointers(ka: List[int], kb: List[int], la: List[int], lb: List[int],
                            swap: bool) -> int:
    """
    pre: 1 <= len(ka) <= 2 and 1 <= len(kb) <= 2
    pre: len(la) == 3 and len(lb) == 3
    post: _ >= 0
    """
    return _multi_file(ka, kb, la, lb, swap)


def _multi_file_idx(ka, kb, la, lb, swap):
    """as _multi_file, but every file comes with an .idx (what indexGVF writes), loaded through
    VariantRecordPoolOnDisk.load_index"""
    from moPepGen.seqvar.VariantRecordPoolOnDisk import VariantRecordPoolOnDisk
    files = []
    uid = 0
    for keys, lens in ((ka, la), (kb, lb)):
        if lens[0] < 1:
            return SKIP
        lines = [_Line(lens[0], None)]
        for i, k in enumerate(keys):
            if not 0 <= k <= 1 or lens[i + 1] < 1:
                return SKIP
            lines.append(_Line(lens[i + 1], _Rec(KEYS[k], uid)))
            uid += 1
        files.append(_Handle(lines))
    order = [1, 0] if swap else [0, 1]
    pool = VariantRecordPoolOnDisk(gvf_files=['a.gvf', 'b.gvf'])
    with patched((gvfindex.io, 'line_to_variant_record', lambda line: line.rec),
                 (vpod.GVFMetadata, 'parse', lambda h: _Meta())):
        idx_text = {}
        for i in (0, 1):
            ptrs = list(gvfindex.iterate_pointer(files[i], is_circ_rna=False))
            idx_text[i] = ['# CHECKSUM=x\n'] + [p.to_line() + '\n' for p in ptrs]
            files[i].pos = 0

        def fake_open(path, mode='r'):
            return _TextFile(idx_text[int(str(path)[-1])] if str(path).startswith('idx') else [])

        with patched((vpod, 'open', fake_open)):
            for i in order:
                pool.load_index(f'idx{i}', f'gvf{i}', files[i])
        got = {}
        for key, ptrs in pool.pointers.items():
            recs = []
            for p in ptrs:
                recs += p.load()
            got[key] = sorted(r.uid for r in recs)
    want = {}
    uid = 0
    for keys in (ka, kb):
        for k in keys:
            want.setdefault(KEYS[k], []).append(uid)
            uid += 1
    if got != want:
        return -5
    return OK


@cond('C06', bounds='as c06_multi_file_pointers with every file indexed (.idx text written by the real to_line, read by '
      'the real load_index), byte lengths < 10000', encodes=ENC_I + [
      'moPepGen.seqvar.VariantRecordPoolOnDisk.VariantRecordPoolOnDisk.load_index'], codes=CODES_I,
      tokens=True, stubs=['as c13_index_scan', 'open / GVFMetadata.parse -> in-memory'], timeout=400)
def c06_multi_file_idx(ka: List[int], kb: List[int], la: List[int], lb: List[int], swap: bool) -> int:
    """
    pre: 1 <= len(ka) <= 2 and 1 <= len(kb) <= 2
    pre: len(la) == 3 and len(lb) == 3
    pre: all(1 <= x < 10000 for x in la) and all(1 <= x < 10000 for x in lb)
    post: _ >= 0
    """
    return _multi_file_idx(ka, kb, la, lb, swap)


@cond('C13', bounds='two GVF files with <= 2 records each over 2 transcripts, any grouping and file order, every file '
      'indexed (.idx written by the real to_line, read by the real load_index), byte lengths < 10000',
      encodes=ENC_I + ['moPepGen.seqvar.VariantRecordPoolOnDisk.VariantRecordPoolOnDisk.load_index'],
      codes=CODES_I, tokens=True, stubs=['as c13_index_scan', 'open / GVFMetadata.parse -> in-memory'], timeout=400)
def c13_multi_file_idx(ka: List[int], kb: List[int], la: List[int], lb: List[int], swap: bool) -> int:
    """
    pre: 1 <= len(ka) <= 2 and 1 <= len(kb) <= 2
    pre: len(la) == 3 and len(lb) == 3
    pre: all(1 <= x < 10000 for x in la) and all(1 <= x < 10000 for x in lb)
    post: _ >= 0
    """
    return _multi_file_idx(ka, kb, la, lb, swap)


@cond('C13', bounds='two GVF files with <= 2 records each over 2 transcripts, any grouping and file order, index '
      'generated on open, UNBOUNDED symbolic byte lengths', encodes=ENC_I + [
      'moPepGen.seqvar.VariantRecordPoolOnDisk.VariantRecordPoolOnDisk.generate_index'], codes=CODES_I,
      tokens=True, stubs=['as c13_index_scan', 'open / GVFMetadata.parse -> in-memory'], timeout=400)
def c13_multi_file_pointers(ka: List[int], kb: List[int], la: List[int], lb: List[int],
                            swap: bool) -> int:
    """
    pre: 1 <= len(ka) <= 2 and 1 <= len(kb) <= 2
    pre: len(la) == 3 and len(lb) == 3
    post: _ >= 0
    """
    return _multi_file(ka, kb, la, lb, swap)


_B_NC = ('file A with 3 records over 2 transcripts in ANY order (a transcript may own two non-contiguous blocks), file B '
         'with 1 record; any file order; every file indexed (.idx written by the real to_line, read by the real '
         'load_index), byte lengths < 10000')


@cond('C06', bounds=_B_NC, encodes=ENC_I + ['moPepGen.seqvar.VariantRecordPoolOnDisk.VariantRecordPoolOnDisk.load_index'],
      codes=CODES_I, tokens=True, stubs=['as c13_index_scan', 'open / GVFMetadata.parse -> in-memory'], timeout=400)
def c06_idx_noncontiguous(k0: int, k1: int, k2: int, kb: int, la: List[int], lb: List[int], swap: bool) -> int:
    """
    pre: len(la) == 4 and len(lb) == 2
    pre: all(1 <= x < 10000 for x in la) and all(1 <= x < 10000 for x in lb)
    post: _ >= 0
    """
    return _multi_file_idx([k0, k1, k2], [kb], la, lb, swap)


@cond('C13', bounds=_B_NC, encodes=ENC_I + ['moPepGen.seqvar.VariantRecordPoolOnDisk.VariantRecordPoolOnDisk.load_index'],
      codes=CODES_I, tokens=True, stubs=['as c13_index_scan', 'open / GVFMetadata.parse -> in-memory'], timeout=400)
def c13_idx_noncontiguous(k0: int, k1: int, k2: int, kb: int, la: List[int], lb: List[int], swap: bool) -> int:
    """
    pre: len(la) == 4 and len(lb) == 2
    pre: all(1 <= x < 10000 for x in la) and all(1 <= x < 10000 for x in lb)
    post: _ >= 0
    """
    return _multi_file_idx([k0, k1, k2], [kb], la, lb, swap)


# --------------------------------------------------------------------------
# C06: records of several GVF files are merged per transcript through set(): two records that denote different events
# must both survive (whatever the file order), identical ones collapse to one
# --------------------------------------------------------------------------
# attributes that, by the GVF documentation, change which event an <INS>/<DEL>/<SUB> record denotes
_ID_ATTRS = ['DONOR_TRANSCRIPT_ID', 'START', 'END', 'DONOR_START', 'DONOR_END']


def _record_identity(k, swap):
    from moPepGen.SeqFeature import FeatureLocation
    from moPepGen.seqvar.VariantRecord import VariantRecord

    class _Rec2(VariantRecord):
        """real identity (__hash__ / __eq__ inherited); coordinate conversion stubbed"""
        __hash__ = VariantRecord.__hash__

        def is_spanning_over_splicing_site(self, anno, tx_id):
            return False

        def to_transcript_variant(self, anno, genome, tx_id=None, cached_seqs=None):
            return self

        def shift_deletion_up(self, seq):
            return None

    def mk(delta):
        attrs = {'TRANSCRIPT_ID': 'T1', 'GENE_ID': 'G1'}
        for i, name in enumerate(_ID_ATTRS):
            attrs[name] = ('T9' if delta == 5 + i else 'T8') if i == 0 else 100 + 10 * i + (1 if delta == 5 + i else 0)
        start = 30 + (1 if delta == 0 else 0)
        end = start + 1 + (1 if delta == 1 else 0)
        ref = ('C' if delta == 2 else 'A') * (end - start)
        alt = '<SUB>' if delta == 3 else '<INS>'
        typ = 'Substitution' if delta == 4 else 'Insertion'
        return _Rec2(location=FeatureLocation(seqname='G1', start=start, end=end), ref=ref, alt=alt, _type=typ,
                     _id='X', attrs=attrs)

    r1, r2 = mk(-1), mk(k)
    items = [r2, r1] if swap else [r1, r2]
    from crosshair.tracers import NoTracing
    from moPepGen.seqvar.VariantRecordPoolOnDisk import VariantRecordPoolOnDisk

    class _Ptr:
        is_circ_rna = False            # attribute of the real GVFPointer

        def __init__(self, records):
            self.records = records

        def load(self):
            return list(self.records)

    with NoTracing():
        # all fields are concrete here; CrossHair's own hash() patch does not reproduce CPython's tuple hash.
        # The two records come from two GVF files (one pointer each, in either order) and are united by the real
        # VariantRecordPoolOnDisk.__getitem__; conversion to transcript coordinates is stubbed (identity)
        pool = VariantRecordPoolOnDisk(pointers={'T1': [_Ptr([items[0]]), _Ptr([items[1]])]}, gvf_files=[], anno=None,
                                       genome=None)
        n = len(pool['T1'].transcriptional)
    if k == 10:
        return OK if n == 1 else -1
    return OK if n == 2 else -2


@cond('C06', bounds='two alternative-splicing records that are identical except for ONE of the 10 fields that define the event '
      '(start, end, REF, ALT, type, donor transcript, START/END, DONOR_START/DONOR_END) or not at all, in either order', encodes=['moPepGen.seqvar.VariantRecordPoolOnDisk.VariantRecordPoolOnDisk.__getitem__ (union of the records of all '
      'files)', 'moPepGen.seqvar.VariantRecord.VariantRecord.__hash__ / __eq__'],
      stubs=['GVF pointers -> in-memory records', 'to_transcript_variant / is_spanning_over_splicing_site -> identity / False'],
      codes={-1: 'two identical records are both kept (duplicate events across GVF files)',
             -2: 'two records that differ in an identifying field collapse into one when merged through set(): which '
                 'event survives would depend on the order of the GVF files'}, shim=True, timeout=200)
def c06_record_identity(k: int, swap: bool) -> int:
    """
    pre: 0 <= k <= 10
    post: _ >= 0
    """
    return _record_identity(concretize(k, 0, 10), swap)


# --------------------------------------------------------------------------
# opening several GVF files: every .idx that exists is validated against its GVF before it is used
# --------------------------------------------------------------------------
class _FakeIdx:
    def __init__(self, name, present):
        self.name, self.present = name, present

    def exists(self):
        return self.present


class _FakeGvf:
    suffix = '.gvf'

    def __init__(self, i, has_idx):
        self.i, self.has_idx = i, has_idx

    def open(self, mode='rb'):
        return f'H{self.i}'

    def with_suffix(self, suffix):
        return _FakeIdx(f'f{self.i}{suffix}', self.has_idx)


def _opener(has_idx, stale):
    """three GVF files, each with / without an .idx; an .idx may be stale (validate_gvf_index raises)"""
    from moPepGen.seqvar.VariantRecordPoolOnDisk import VariantRecordPoolOnDisk, VariantRecordPoolOnDiskOpener
    files = [_FakeGvf(i, has_idx[i]) for i in range(3)]
    log = []

    class _Pool(VariantRecordPoolOnDisk):
        def validate_gvf_index(self, gvf_file, idx_file):
            log.append(('V', gvf_file.i))
            if stale[gvf_file.i]:
                raise ValueError('GVF file and index do not match')

        def load_index(self, index_file, gvf_file, gvf_handle):
            log.append(('L', gvf_file.i))

        def generate_index(self, gvf_file, gvf_handle):
            log.append(('G', gvf_file.i))

    pool = _Pool(gvf_files=files)
    first_stale = None
    for i in range(3):
        if has_idx[i] and stale[i]:
            first_stale = i
            break
    try:
        VariantRecordPoolOnDiskOpener(pool).open()
    except ValueError:
        if first_stale is None:
            return -1              # rejected although every index matches
        if ('L', first_stale) in log:
            return -2              # the stale index was loaded before being rejected
        return OK
    if first_stale is not None:
        return -3                  # an .idx that does not correspond to its GVF was used
    for i in range(3):
        want = [('V', i), ('L', i)] if has_idx[i] else [('G', i)]
        got = [e for e in log if e[1] == i]
        if got != want:
            return -4              # a file was not indexed exactly once / its index was not validated before use
    return OK


@cond('C13', bounds='three GVF files, each with or without an .idx, each .idx matching or stale (every combination)',
      encodes=['moPepGen.seqvar.VariantRecordPoolOnDisk.VariantRecordPoolOnDiskOpener.open'],
      stubs=['Path objects, validate_gvf_index (decided by c13_stale_index) / load_index / generate_index -> recorders'],
      codes={-1: 'files rejected although every index matches', -2: 'a stale index was loaded before being rejected',
             -3: 'an .idx that does not correspond to its GVF was accepted', -4: 'a file was not indexed exactly once, or '
             'its .idx was used without validation'}, timeout=300)
def c13_opener_validates_each(i0: bool, i1: bool, i2: bool, s0: bool, s1: bool, s2: bool) -> int:
    """
    post: _ >= 0
    """
    return _opener([i0, i1, i2], [s0, s1, s2])
