"""C09 (partial): SECT pseudo-variant placement.  create_variant_sect / gather_sect_variants for a
Sec codon at a symbolic transcript position on a symbolic 2-exon transcript, both strands."""
from moPepGen.seqvar.VariantRecord import create_variant_sect, create_variant_w2f
from mpgverif.harness.annobuild import anno_one_gene, exons_valid, genomic_oracle, tx_len
from mpgverif.hlib import OK, SKIP, cond

USE_SHIM = True
USE_TOKENS = True


def _sect(gs, ge, strand, exons, pos):
    if not exons_valid(gs, ge, exons):
        return SKIP
    n = tx_len(exons)
    if not 0 <= pos <= n - 3:
        return SKIP
    anno = anno_one_gene(gs, ge, strand, exons)
    v = create_variant_sect(anno, 'T1', pos)
    if v.location.start != pos or v.location.end != pos + 3:
        return -1                  # SECT location is not the transcript interval of the Sec codon
    g = genomic_oracle(exons, strand, pos)
    gene = g - gs if strand == 1 else ge - 1 - g
    kind, num = v.id.split('-')
    if kind != 'SECT' or int(num) != gene + 1:
        return -2                  # identifier does not encode the gene coordinate (+1) of the codon's first base
    if v.type != 'SECT' or v.ref != 'TGA' or v.attrs['TRANSCRIPT_ID'] != 'T1':
        return -3
    w = create_variant_w2f('T1', pos)
    if w.location.start != pos or w.location.end != pos + 1 or w.ref != 'W' or w.alt != 'F' \
            or w.type != 'W2F':
        return -4
    k2, n2 = w.id.split('-')
    if k2 != 'W2F' or int(n2) != pos + 1:
        return -5                  # W2F identifier does not name the (1-based) substituted position
    return OK


@cond('C09', bounds='Sec codon at any transcript position of a 2-exon transcript (possibly split by the intron), '
      'coordinates < 59000, both strands; W2F identifier for the same position',
      encodes=['moPepGen.seqvar.VariantRecord.create_variant_sect', 'moPepGen.seqvar.VariantRecord.create_variant_w2f',
               'moPepGen.gtf.GenomicAnnotation.coordinate_transcript_to_genomic / coordinate_genomic_to_gene'],
      codes={-1: 'SECT location is not the transcript interval of the Sec codon',
             -2: "SECT identifier does not encode the gene coordinate + 1 of the codon's first base",
             -3: 'SECT record fields wrong', -4: 'W2F record fields wrong',
             -5: 'W2F identifier does not name the substituted position'}, tokens=True, timeout=300)
def c09_sect_placement(gs: int, ge: int, plus: bool, a0: int, b0: int, a1: int, b1: int,
                       pos: int) -> int:
    """
    pre: 0 <= gs and ge < 59000
    post: _ >= 0
    """
    return _sect(gs, ge, 1 if plus else -1, [(a0, b0), (a1, b1)], pos)
