"""C07-1: per-unit failure isolation in the REAL
``call_variant_peptides_wrapper`` (the function behind the timeout decorator).

Stubs (module attributes of moPepGen.cli.call_variant_peptide, restored afterwards):
  call_canonical_peptides -> empty denylist (assumed not to fail: it digests the
  reference transcript only), call_peptide_main / call_peptide_fusion /
  call_peptide_circ_rna -> raise or return unit-specific peptides according to a
  symbolic fault vector, get_logger -> null logger.  Fake variant series, pool and
  annotation objects supply only what the wrapper itself touches.
"""
import sys

import moPepGen.cli.call_variant_peptide  # noqa: F401
from mpgverif.hlib import OK, SKIP, NullLogger, concretize, cond, patched

USE_SHIM = False
USE_TOKENS = False

cvp = sys.modules['moPepGen.cli.call_variant_peptide']
STUBS = ['call_canonical_peptides', 'call_peptide_main', 'call_peptide_fusion',
         'call_peptide_circ_rna', 'get_logger (in call_variant_peptide)']


class Boom(Exception):
    def __init__(self, unit):
        super().__init__(unit)
        self.unit = unit


class _Label:
    def __init__(self, label):
        self.label = label


class _Loc:
    def __init__(self, start, seqname):
        self.start = start
        self.seqname = seqname


class _Fusion:
    def __init__(self, i):
        self.id = f'FUS{i}'
        self.location = _Loc(5, 'TX')
        self.attrs = {'GENE_ID': 'G', 'ACCEPTER_TRANSCRIPT_ID': 'TX2'}


class _Circ:
    def __init__(self, i):
        self.id = f'CIRC{i}'


class _Series:
    def __init__(self, has_main, nf, nc, alt_splice):
        self.transcriptional = ['v'] if has_main else []
        self.intronic = []
        self.fusion = [_Fusion(i) for i in range(nf)]
        self.circ_rna = [_Circ(i) for i in range(nc)]
        self._alt = alt_splice

    def has_any_alternative_splicing(self):
        return self._alt

    def __copy__(self):
        s = _Series(False, 0, 0, self._alt)
        s.transcriptional = list(self.transcriptional)
        s.fusion = list(self.fusion)
        s.circ_rna = list(self.circ_rna)
        return s


class _PoolFake:
    def __init__(self, series):
        self.data = {'TX': series}

    def __getitem__(self, k):
        return self.data[k]

    def __setitem__(self, k, v):
        self.data[k] = v

    def __copy__(self):
        p = _PoolFake(None)
        p.data = dict(self.data)
        return p

    def filter_variants(self, **kw):
        return ['FILTERED']


class _Anno:
    def coordinate_transcript_to_genomic(self, index, transcript):
        return index + 100

    def coordinate_genomic_to_gene(self, index, gene):
        return index - 50


class _RefData:
    anno = _Anno()


def run_wrapper(has_main, alt, nf, nc, fail_main, fail_f, fail_c, skip_failed, nct):
    calls = []
    seen_pools = []
    run_wrapper.seen_pools = seen_pools

    seen_deny = []
    run_wrapper.seen_deny = seen_deny

    def main(**kw):
        calls.append('MAIN')
        seen_deny.append(('M', set(kw['denylist'])))
        if fail_main:
            raise Boom('MAIN')
        return ({'PM': [_Label('LM')], 'SHARED': [_Label('LM')]}, 'dg', 'pg')

    def fusion(variant, **kw):
        calls.append(variant.id)
        seen_deny.append(('F', set(kw['denylist'])))
        seen_pools.append(('F', list(kw['variant_pool']['TX'].transcriptional)))
        i = int(variant.id[3:])
        if fail_f[i]:
            raise Boom(variant.id)
        return ({f'PF{i}': [_Label(f'LF{i}')], 'SHARED': [_Label(f'LF{i}')]}, f'dgF{i}', f'pgF{i}')

    def circ(record, **kw):
        calls.append(record.id)
        seen_deny.append(('C', set(kw['denylist'])))
        seen_pools.append(('C', list(kw['variant_pool']['TX'].transcriptional)))
        i = int(record.id[4:])
        if fail_c[i]:
            raise Boom(record.id)
        return ({f'PC{i}': [_Label(f'LC{i}')], 'SHARED': [_Label(f'LC{i}')]}, f'dgC{i}', f'pgC{i}')

    series = _Series(has_main, nf, nc, alt)
    pool = _PoolFake(series)
    with patched((cvp, 'call_canonical_peptides', lambda **kw: {'CANON'}),
                 (cvp, 'call_peptide_main', main),
                 (cvp, 'call_peptide_fusion', fusion),
                 (cvp, 'call_peptide_circ_rna', circ),
                 (cvp, 'get_logger', lambda: NullLogger())):
        fn = cvp.call_variant_peptides_wrapper.__wrapped__
        return fn(tx_id='TX', variant_series=series, tx_seqs={'TX': None}, gene_seqs={},
                  reference_data=_RefData(), pool=pool, cleavage_params=None,
                  noncanonical_transcripts=nct, max_adjacent_as_mnv=2, truncate_sec=False,
                  w2f_reassignment=False, backsplicing_only=False, save_graph=False,
                  coding_novel_orf=False, skip_failed=skip_failed), calls


def _check(has_main, alt, nf, nc, fm, ff, fc, skip_failed, nct):
    main_runs = has_main and (not nct or alt)
    fm = fm and main_runs
    ff = [ff[i] and i < nf for i in range(2)]
    fc = [fc[i] and i < nc for i in range(2)]
    # units in execution order
    first_fail = None
    if fm:
        first_fail = 'MAIN'
    else:
        for i in range(nf):
            if ff[i]:
                first_fail = f'FUS{i}'
                break
        if first_fail is None:
            for i in range(nc):
                if fc[i]:
                    first_fail = f'CIRC{i}'
                    break
    try:
        (anno, tx_id, dgraphs, pgraphs, flags), calls = run_wrapper(
            has_main, alt, nf, nc, fm, ff, fc, skip_failed, nct)
    except Boom as e:
        if skip_failed:
            return -1          # --skip-failed did not isolate the failure
        if first_fail is None:
            return -2
        return OK if e.unit == first_fail else -3
    if first_fail is not None and not skip_failed:
        return -4              # failure swallowed without --skip-failed
    want = {}
    if main_runs and not fm:
        want['PM'] = ['LM']
        want.setdefault('SHARED', []).append('LM')
    for i in range(nf):
        if not ff[i]:
            want[f'PF{i}'] = [f'LF{i}']
            want.setdefault('SHARED', []).append(f'LF{i}')
    for i in range(nc):
        if not fc[i]:
            want[f'PC{i}'] = [f'LC{i}']
            want.setdefault('SHARED', []).append(f'LC{i}')
    got = {k: [x.label for x in v] for k, v in anno.items()}
    if set(got) != set(want):
        return -5              # peptide set != union over the non-failing units
    for k in want:
        if sorted(got[k]) != sorted(want[k]):
            return -6          # header entries of a peptide altered by another unit's failure
    # every unit is called with the variants it is entitled to, whatever failed before it:
    # a fusion sees the donor variants upstream of its breakpoint, a circRNA the full list
    full = ['v'] if has_main else []
    for kind, seen in run_wrapper.seen_pools:
        if kind == 'F' and seen != ['FILTERED']:
            return -11
        if kind == 'C' and seen != full:
            return -11
    wf = (not fm, not any(ff), not any(fc))
    if tuple(flags) != wf:
        return -7              # success flags do not report exactly the failing kinds
    if tx_id != 'TX':
        return -8
    # graphs registered only for the units that succeeded
    if set(dgraphs[1]) != {f'FUS{i}' for i in range(nf) if not ff[i]}:
        return -9
    if set(dgraphs[2]) != {f'CIRC{i}' for i in range(nc) if not fc[i]}:
        return -9
    for i in range(nc):
        if not fc[i] and (dgraphs[2][f'CIRC{i}'] != f'dgC{i}' or pgraphs[2][f'CIRC{i}'] != f'pgC{i}'):
            return -10         # a circRNA got another unit's graph
    return OK


CODES = {-1: 'with --skip-failed a unit failure aborted the transcript',
         -2: 'exception although no unit failed',
         -3: 'without --skip-failed a different exception than the first failing unit propagated',
         -4: 'without --skip-failed a unit failure was swallowed',
         -5: 'peptide set differs from the union over the non-failing units',
         -6: "a peptide's header entries were altered by another unit's failure",
         -7: 'success flags do not report exactly the failing kinds',
         -8: 'wrong transcript id returned',
         -9: 'graphs registered for a failed unit (or missing for a successful one)',
         -10: "a circRNA was registered with another unit's graphs",
         -11: "a unit was called with a variant list altered by another unit (e.g. left truncated by a failed fusion)"}
ENC = ['moPepGen.cli.call_variant_peptide.call_variant_peptides_wrapper']


@cond('C07', bounds='1 main unit (present/absent) + 0..2 fusions + 0..2 circRNAs, every '
      'failure subset, skip_failed and noncanonical_transcripts symbolic', encodes=ENC,
      stubs=STUBS, codes=CODES, shim=False, timeout=240)
def c07_wrapper_isolation(has_main: bool, alt: bool, nf: int, nc: int, fm: bool,
                          ff0: bool, ff1: bool, fc0: bool, fc1: bool,
                          skip_failed: bool, nct: bool) -> int:
    """
    pre: 0 <= nf <= 2 and 0 <= nc <= 2
    post: _ >= 0
    """
    return _check(has_main, alt, nf, nc, fm, [ff0, ff1], [fc0, fc1], skip_failed, nct)


# --------------------------------------------------------------------------
# C02: timeout-driven retries only lower the complexity limits
# --------------------------------------------------------------------------
class _CP:
    """stands in for CleavageParams (copied with copy.copy by the reducer)"""

    def __init__(self, mvpn, avpm):
        self.max_variants_per_node = mvpn
        self.additional_variants_per_misc = avpm
        self.other = 'KEEP'


def _reducer(n_timeouts, mv0, mv1, n_mv, av0, av1, n_av):
    """the wrapper times out n_timeouts times, then succeeds; user-supplied limit tuples of length
    n_mv / n_av"""
    mvs = tuple([mv0, mv1][:n_mv])
    avs = tuple([av0, av1][:n_av])
    seen = []

    def fake_wrapper(**dispatch):
        p = dispatch['cleavage_params']
        seen.append((p.max_variants_per_node, p.additional_variants_per_misc, p.other,
                     {k: v for k, v in dispatch.items() if k != 'cleavage_params'}))
        if len(seen) <= n_timeouts:
            raise TimeoutError('t')
        return 'RESULT'

    dispatch = {'tx_id': 'T', 'cleavage_params': _CP(mvs[0], avs[0]), 'max_variants_per_node': mvs,
                'additional_variants_per_misc': avs, 'payload': 'X'}
    exhausted = False
    with patched((cvp, 'call_variant_peptides_wrapper', fake_wrapper),
                 (cvp, 'get_logger', lambda: NullLogger())):
        try:
            res = cvp.caller_reducer(dispatch)
        except ValueError:
            exhausted = True
            res = None
    # the caller's dispatch and parameters are never mutated
    if dispatch['cleavage_params'].max_variants_per_node != mvs[0] \
            or dispatch['cleavage_params'].additional_variants_per_misc != avs[0]:
        return -1
    for k, (mv, av, other, rest) in enumerate(seen):
        if other != 'KEEP' or rest['payload'] != 'X' or rest['tx_id'] != 'T':
            return -2              # a retry changed something other than the two complexity limits
        if k == 0:
            if (mv, av) != (mvs[0], avs[0]):
                return -3
            continue
        pmv, pav = seen[k - 1][0], seen[k - 1][1]
        want_mv = mvs[k] if k < len(mvs) else None
        if want_mv is not None:
            if mv != want_mv:
                return -4          # retry does not use the next user-supplied limit
        elif mv != pmv - 1 or mv <= 0:
            return -5              # beyond the supplied limits each retry lowers the limit by one, never to <= 0
        want_av = avs[k] if k < len(avs) else 0
        if av != want_av:
            return -6              # additional-variants limit not the next supplied value / 0
    if exhausted:
        return OK if len(seen) <= n_timeouts else -7
    if res != 'RESULT' or len(seen) != n_timeouts + 1:
        return -8                  # a partial / invented result was returned
    return OK


@cond('C02', bounds='caller_reducer with 0..3 consecutive timeouts, user-supplied limit tuples of length 1..2 with '
      'UNBOUNDED symbolic values', encodes=['moPepGen.cli.call_variant_peptide.caller_reducer'],
      stubs=['call_variant_peptides_wrapper -> times out k times then returns', 'get_logger'],
      codes={-1: "the caller's dispatch was mutated by a retry",
             -2: 'a retry changed something other than the two complexity limits',
             -3: 'first attempt does not use the first supplied limits',
             -4: 'a retry does not use the next user-supplied max-variants-per-node',
             -5: 'a retry did not lower max-variants-per-node',
             -6: 'a retry does not use the next supplied additional-variants-per-misc (or 0)',
             -7: 'retries continued after the limits were exhausted',
             -8: 'result returned is not the result of the first successful attempt'},
      shim=False, timeout=300)
def c02_timeout_retries(n_timeouts: int, mv0: int, mv1: int, n_mv: int, av0: int, av1: int,
                        n_av: int) -> int:
    """
    pre: 0 <= n_timeouts <= 3
    pre: 1 <= n_mv <= 2 and 1 <= n_av <= 2
    pre: mv0 >= 1 and mv1 >= 1 and av0 >= 0 and av1 >= 0
    post: _ >= 0
    """
    return _reducer(n_timeouts, mv0, mv1, n_mv, av0, av1, n_av)


# ------------------------------------------------------------------ C05: adding a fusion record only adds
def _added_fusion(has_main, alt, nf, nc, nct):
    """the same transcript processed with nf and with nf + 1 fusion records (no failures): every peptide / header
    entry of the smaller run is still there, what is new belongs to the added fusion, and the other units are
    called with the same variants as before"""
    (small, _, _, _, _), _ = run_wrapper(has_main, alt, nf, nc, False, [False, False], [False, False], False, nct)
    seen_small = list(run_wrapper.seen_pools)
    (big, _, _, _, _), _ = run_wrapper(has_main, alt, nf + 1, nc, False, [False, False], [False, False], False, nct)
    seen_big = list(run_wrapper.seen_pools)
    a = {k: sorted(x.label for x in v) for k, v in small.items()}
    b = {k: sorted(x.label for x in v) for k, v in big.items()}
    new = f'LF{nf}'
    for k, labs in a.items():
        if k not in b:
            return -1              # adding a fusion record removed a peptide
        if any(x not in b[k] for x in labs):
            return -2              # ... or one of its header entries
    for k, labs in b.items():
        extra = [x for x in labs if x not in a.get(k, [])]
        if any(x != new for x in extra):
            return -3              # something new that is not attributable to the added fusion
    if [s for s in seen_small if s[0] == 'C'] != [s for s in seen_big if s[0] == 'C']:
        return -4                  # circRNA units were called with other variants than before
    return OK


@cond('C05', bounds='per-transcript wrapper with 0..1 fusion records versus one more, 0..2 circRNAs, main unit present or '
      'not, --noncanonical-transcripts symbolic; no failures', encodes=ENC, stubs=STUBS,
      codes={-1: 'adding a fusion record removed a peptide', -2: 'adding a fusion record removed a header entry',
             -3: 'a new peptide / header entry is not attributable to the added fusion',
             -4: 'with the added fusion the circRNA units were called with a different variant list'}, shim=False,
      timeout=300)
def c05_added_fusion_only_adds(has_main: bool, alt: bool, nf: int, nc: int, nct: bool) -> int:
    """
    pre: 0 <= nf <= 1 and 0 <= nc <= 2
    post: _ >= 0
    """
    return _added_fusion(has_main, alt, concretize(nf, 0, 1), concretize(nc, 0, 2), nct)


# ------------------------------------------------------------------ deny-list seen by every unit
def _denylists(has_main, alt, nf, nc, nct):
    """every unit must be called with the transcript's canonical peptides in its deny-list; the circRNA units in addition
    with the peptides the linear transcript already produced (so that they are not reported twice)"""
    run_wrapper(has_main, alt, nf, nc, False, [False, False], [False, False], False, nct)
    main_ran = has_main and (not nct or alt)
    for kind, deny in run_wrapper.seen_deny:
        if 'CANON' not in deny:
            return -1              # a unit was called without the canonical peptides of the transcript
        if kind == 'C' and main_ran and not {'PM', 'SHARED'} <= deny:
            return -2              # circRNA called without the peptides of the linear transcript
        if kind in ('M', 'F') and ('PM' in deny):
            return -3
    return OK


@cond('C05', bounds='per-transcript wrapper: main unit present or not, --noncanonical-transcripts symbolic, 0..2 fusions, 0..2 '
      'circRNAs; no failures', encodes=ENC, stubs=STUBS,
      codes={-1: 'a unit was called without the canonical peptides of the transcript in its deny-list (a restrictive switch or a '
                 'circRNA-only input would then report canonical peptides)',
             -2: 'a circRNA unit was called without the peptides already produced by the linear transcript',
             -3: 'the main / fusion unit was called with peptides of the linear transcript already deny-listed'},
      shim=False, timeout=300)
def c05_unit_denylists(has_main: bool, alt: bool, nf: int, nc: int, nct: bool) -> int:
    """
    pre: 0 <= nf <= 2 and 0 <= nc <= 2
    post: _ >= 0
    """
    return _denylists(has_main, alt, concretize(nf, 0, 2), concretize(nc, 0, 2), nct)
