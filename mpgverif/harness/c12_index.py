"""C12 (and C10-1d): index metadata state machine and parameter plumbing.

* c12_meta_*      one inductive step of IndexMetadata from a state built by real
                  register_canonical_pool calls: register / lookup semantics.
* c12_save_*      IndexDir.save_canonical_peptides / load_canonical_peptides with the
                  file system stubbed by a dict (open, pickle).
* c12_plumb_*     the REAL generate_index / update_index / load_references with recording
                  stubs for I/O classes: the canonical pool is digested with exactly the
                  parameters it is registered / looked up under.
"""
import argparse
import inspect
import sys
from pathlib import Path

import moPepGen.cli.generate_index  # noqa: F401
import moPepGen.cli.update_index  # noqa: F401
from moPepGen import aa, params
from moPepGen.cli import common
from moPepGen.index import IndexDir, IndexMetadata
from moPepGen.params import CleavageParams
from moPepGen.version import MetaVersion
from mpgverif.hlib import OK, SKIP, NullLogger, cond, patched

USE_SHIM = False
USE_TOKENS = False

gi = sys.modules['moPepGen.cli.generate_index']
ui = sys.modules['moPepGen.cli.update_index']
idx = sys.modules['moPepGen.index']

ENZ = ['trypsin', 'lysc']
EXC = ['auto', None, 'trypsin_exception']


def _resolved(e, x):
    """documented resolution of --cleavage-exception auto"""
    if EXC[x] == 'auto':
        return 'trypsin_exception' if ENZ[e] == 'trypsin' else None
    return EXC[x]


def _cp(e, x, m, mw=500, lo=7, hi=25):
    return CleavageParams(enzyme=ENZ[e], exception=EXC[x], miscleavage=m, min_mw=mw,
                          min_length=lo, max_length=hi)


def _key(e, x, m, mw=500, lo=7, hi=25):
    return (ENZ[e], _resolved(e, x), m, mw, lo, hi)


# --------------------------------------------------------------------------
def _meta_step(p1, p2, q, r, n):
    """n pools registered (parameters p1, p2), then register q, then look up r."""
    meta = IndexMetadata(version=MetaVersion(), canonical_pools=[], source=None)
    keys = []
    files = []
    for p in [p1, p2][:n]:
        k = _key(*p)
        if k in keys:
            return SKIP            # state must have pairwise different parameter sets
        pool = meta.register_canonical_pool(_cp(*p))
        keys.append(k)
        files.append(pool.filename)
    if len(set(files)) != len(files):
        return -1                  # two parameter sets share a file
    kq = _key(*q)
    try:
        newpool = meta.register_canonical_pool(_cp(*q))
        if kq in keys:
            return -2              # duplicate registration accepted
        if newpool.filename in files:
            return -3              # new pool reuses an existing file
        keys.append(kq)
        files.append(newpool.filename)
    except ValueError:
        if kq not in keys:
            return -4              # registration of a new parameter set rejected
    # existing pools unaffected
    for i in range(n):
        hit = meta.get_canonical_pool(_cp(*[p1, p2][i]))
        if hit is None or hit.filename != files[i]:
            return -5
    kr = _key(*r)
    hit = meta.get_canonical_pool(_cp(*r))
    if kr in keys:
        if hit is None:
            return -6              # registered parameters not found
        if hit.filename != files[keys.index(kr)]:
            return -7              # lookup returns another parameter set's pool
    elif hit is not None:
        return -8                  # lookup with unregistered parameters returns a pool
    return OK


CODES = {-1: 'two parameter sets share a pool file', -2: 'duplicate registration accepted',
         -3: 'new pool reuses an existing file name', -4: 'new parameter set rejected',
         -5: 'existing pool changed by a later registration',
         -6: 'registered parameter set not found', -7: "lookup returns another parameter set's pool",
         -8: 'lookup with unregistered parameters returns a pool'}
ENC = ['moPepGen.index.IndexMetadata.register_canonical_pool',
       'moPepGen.index.IndexMetadata.get_canonical_pool',
       'moPepGen.params.CleavageParams.__init__/jsonfy']


@cond('C12', bounds='<=2 registered pools + 1 registration + 1 lookup; enzyme trypsin, exception in '
      '{auto, None, trypsin_exception}, miscleavage unbounded int; other fields fixed',
      encodes=ENC, codes=CODES, shim=False, timeout=400)
def c12_meta_step(n: int, x1: int, m1: int, x2: int, m2: int, xq: int, mq: int,
                  xr: int, mr: int) -> int:
    """
    pre: 0 <= n <= 2
    pre: 0 <= x1 <= 2 and 0 <= x2 <= 2 and 0 <= xq <= 2 and 0 <= xr <= 2
    post: _ >= 0
    """
    return _meta_step((0, x1, m1), (0, x2, m2), (0, xq, mq), (0, xr, mr), n)


@cond('C12', bounds='2 registered pools + 1 registration + 1 lookup; enzyme in 2, exception in 3, '
      'miscleavage unbounded int', encodes=ENC, codes=CODES, shim=False, timeout=3000,
      tiers=('thorough',))
def c12_meta_step_enz(e1: int, x1: int, m1: int, e2: int, x2: int, m2: int,
                      eq: int, xq: int, mq: int, er: int, xr: int, mr: int) -> int:
    """
    pre: 0 <= e1 <= 1 and 0 <= e2 <= 1 and 0 <= eq <= 1 and 0 <= er <= 1
    pre: 0 <= x1 <= 2 and 0 <= x2 <= 2 and 0 <= xq <= 2 and 0 <= xr <= 2
    post: _ >= 0
    """
    return _meta_step((e1, x1, m1), (e2, x2, m2), (eq, xq, mq), (er, xr, mr), 2)


@cond('C12', bounds='1 registered pool + 1 registration + 1 lookup over ALL six parameter fields '
      '(enzyme in 2, exception in 3, miscleavage/min_mw/min_length/max_length unbounded ints)',
      encodes=ENC, codes=CODES, shim=False, timeout=300)
def c12_meta_allfields(e1: int, x1: int, m1: int, w1: int, a1: int, b1: int,
                       eq: int, xq: int, mq: int, wq: int, aq: int, bq: int) -> int:
    """
    pre: 0 <= e1 <= 1 and 0 <= eq <= 1
    pre: 0 <= x1 <= 2 and 0 <= xq <= 2
    post: _ >= 0
    """
    p1 = (e1, x1, m1, w1, a1, b1)
    q = (eq, xq, mq, wq, aq, bq)
    return _meta_step(p1, p1, q, q, 1)


# --------------------------------------------------------------------------
class _FS:
    """dict-backed file system for moPepGen.index (open + pickle)"""

    def __init__(self):
        self.files = {}
        self.writes = []

    def open(self, path, mode='r'):
        return _FH(self, str(path), mode)


class _FH:
    def __init__(self, fs, path, mode):
        self.fs, self.path, self.mode = fs, path, mode

    def __enter__(self):
        return self

    def __exit__(self, *a):
        return False


class _Pickle:
    @staticmethod
    def dump(obj, handle):
        handle.fs.files[handle.path] = obj
        handle.fs.writes.append(handle.path)

    @staticmethod
    def load(handle):
        return handle.fs.files[handle.path]


def _save_load(p1, q, override, r):
    fs = _FS()
    with patched((idx, 'open', fs.open), (idx, 'pickle', _Pickle)):
        d = IndexDir(Path('/nonexistent-mpgverif-index'))
        d.save_canonical_peptides({'POOL1'}, _cp(*p1))
        f1 = fs.writes[-1]
        n_before = len(fs.writes)
        same = _key(*q) == _key(*p1)
        try:
            d.save_canonical_peptides({'POOLQ'}, _cp(*q), override=override)
            if same and not override:
                return -1          # existing pool silently replaced / duplicated without --force
        except ValueError:
            if not same or override:
                return -2          # legitimate save rejected
            if len(fs.writes) != n_before or fs.files[f1] != {'POOL1'}:
                return -3          # rejected save still wrote data
        if not same and fs.files[f1] != {'POOL1'}:
            return -4              # adding a pool changed an existing one
        if same and override and fs.files[f1] != {'POOLQ'}:
            return -5              # --force did not replace the pool of these parameters
        # load
        kr = _key(*r)
        try:
            got = d.load_canonical_peptides(_cp(*r))
        except ValueError:
            if kr == _key(*p1) or (kr == _key(*q) and (not same)):
                return -6          # registered parameters cannot be loaded
            return OK
        if kr == _key(*p1):
            want = {'POOLQ'} if (same and override) else {'POOL1'}
        elif kr == _key(*q):
            want = {'POOLQ'}
        else:
            return -7              # unregistered parameters load some pool
        return OK if got == want else -8


CODES_S = {-1: 'saving an existing parameter set without override did not raise',
           -2: 'legitimate save rejected', -3: 'rejected save still wrote data',
           -4: 'adding a pool changed an existing pool', -5: '--force did not replace the pool',
           -6: 'registered parameters cannot be loaded',
           -7: 'loading with unregistered parameters returned a pool instead of an error',
           -8: "load returned another parameter set's pool"}


@cond('C12', bounds='history: save(p1); save(q, override symbolic); load(r) over enzyme in 2, exception '
      'in 3, miscleavage unbounded', encodes=['moPepGen.index.IndexDir.save_canonical_peptides',
      'moPepGen.index.IndexDir.load_canonical_peptides'] + ENC,
      stubs=['moPepGen.index.open / pickle -> dict-backed file system'], codes=CODES_S,
      shim=False, timeout=300)
def c12_save_load(e1: int, x1: int, m1: int, eq: int, xq: int, mq: int, override: bool,
                  er: int, xr: int, mr: int) -> int:
    """
    pre: 0 <= e1 <= 1 and 0 <= eq <= 1 and 0 <= er <= 1
    pre: 0 <= x1 <= 2 and 0 <= xq <= 2 and 0 <= xr <= 2
    post: _ >= 0
    """
    return _save_load((e1, x1, m1), (eq, xq, mq), override, (er, xr, mr))


def _history3(p1, p2, which, third_new, p3):
    """save(p1); save(p2); then either a forced refresh of p1 or p2 (which) or a third parameter set p3; finally every
    registered parameter set must load back the data saved for it last, and nothing else may have been rewritten"""
    if _key(*p1) == _key(*p2):
        return SKIP
    fs = _FS()
    with patched((idx, 'open', fs.open), (idx, 'pickle', _Pickle)):
        d = IndexDir(Path('/nonexistent-mpgverif-index'))
        d.save_canonical_peptides({'POOL1'}, _cp(*p1))
        d.save_canonical_peptides({'POOL2'}, _cp(*p2))
        want = {_key(*p1): {'POOL1'}, _key(*p2): {'POOL2'}}
        if third_new:
            if _key(*p3) in want:
                return SKIP
            d.save_canonical_peptides({'POOL3'}, _cp(*p3))
            want[_key(*p3)] = {'POOL3'}
        else:
            target = p1 if which else p2
            d.save_canonical_peptides({'FRESH'}, _cp(*target), override=True)
            want[_key(*target)] = {'FRESH'}
        for params in (p1, p2, p3):
            k = _key(*params)
            try:
                got = d.load_canonical_peptides(_cp(*params))
            except ValueError:
                if k in want:
                    return -6
                continue
            if k not in want:
                return -7
            if got != want[k]:
                return -8          # a pool was overwritten by / confused with the pool of other parameters
    return OK


_ENC_H = ['moPepGen.index.IndexDir.save_canonical_peptides / load_canonical_peptides',
          'moPepGen.index.IndexMetadata.register_canonical_pool / get_canonical_pool'] + ENC


@cond('C12', bounds='history: save(p1); save(p2); forced refresh of the OLDER pool p1; load p1 and p2: enzyme in 2, '
      'miscleavage 0..2 (dict equality of the parameter records realises the value)', encodes=_ENC_H, stubs=['moPepGen.index.open / pickle -> dict-backed file system'],
      codes=CODES_S, shim=False, timeout=400)
def c12_refresh_older(e1: int, m1: int, e2: int, m2: int) -> int:
    """
    pre: 0 <= e1 <= 1 and 0 <= e2 <= 1
    pre: 0 <= m1 <= 2 and 0 <= m2 <= 2
    post: _ >= 0
    """
    e1, e2, m1, m2 = concretize(e1, 0, 1), concretize(e2, 0, 1), concretize(m1, 0, 2), concretize(m2, 0, 2)
    return _history3((e1, 0, m1), (e2, 0, m2), True, False, (e2, 0, m2))


@cond('C12', bounds='history: save(p1); save(p2); forced refresh of the NEWER pool p2; load p1 and p2: enzyme in 2, '
      'miscleavage 0..2 (dict equality of the parameter records realises the value)', encodes=_ENC_H, stubs=['moPepGen.index.open / pickle -> dict-backed file system'],
      codes=CODES_S, shim=False, timeout=400)
def c12_refresh_newer(e1: int, m1: int, e2: int, m2: int) -> int:
    """
    pre: 0 <= e1 <= 1 and 0 <= e2 <= 1
    pre: 0 <= m1 <= 2 and 0 <= m2 <= 2
    post: _ >= 0
    """
    e1, e2, m1, m2 = concretize(e1, 0, 1), concretize(e2, 0, 1), concretize(m1, 0, 2), concretize(m2, 0, 2)
    return _history3((e1, 0, m1), (e2, 0, m2), False, False, (e2, 0, m2))


@cond('C12', bounds='history: save(p1); save(p2); save(p3); load all three: enzyme in 2, miscleavage 0..2',
      encodes=_ENC_H, stubs=['moPepGen.index.open / pickle -> dict-backed file system'], codes=CODES_S, shim=False,
      timeout=900, tiers=('thorough',))
def c12_third_pool(e1: int, m1: int, e2: int, m2: int, e3: int, m3: int) -> int:
    """
    pre: 0 <= e1 <= 1 and 0 <= e2 <= 1 and 0 <= e3 <= 1
    pre: 0 <= m1 <= 2 and 0 <= m2 <= 2 and 0 <= m3 <= 2
    post: _ >= 0
    """
    e1, e2, e3 = concretize(e1, 0, 1), concretize(e2, 0, 1), concretize(e3, 0, 1)
    m1, m2, m3 = concretize(m1, 0, 2), concretize(m2, 0, 2), concretize(m3, 0, 2)
    return _history3((e1, 0, m1), (e2, 0, m2), False, True, (e3, 0, m3))


class _TextFH:
    """text file of the dict-backed file system (metadata.json)"""

    def __init__(self, fs, path, mode):
        self.fs, self.path, self.mode = fs, path, mode
        if 'w' in mode:
            fs.files[path] = ''

    def __enter__(self):
        return self

    def __exit__(self, *a):
        return False

    def write(self, text):
        self.fs.files[self.path] += text

    def read(self, n=-1):
        return self.fs.files[self.path]


class _FSText(_FS):
    def open(self, path, mode='r'):
        if str(path).endswith('.json'):
            return _TextFH(self, str(path), mode)
        return _FH(self, str(path), mode)


class _FsPath(type(Path())):
    """a path whose existence is answered by the dict-backed file system"""
    FS = None

    def exists(self):
        return str(self) in _FsPath.FS.files


def _reopen(e1, m1, mw1, l1, e2, m2, mw2, l2):
    """generateIndex-like: register two pools, save the metadata; a NEW IndexDir on the same directory (what every later
    command does) must know both pools with exactly their parameters - zeros included - and load the right data"""
    fs = _FSText()
    _FsPath.FS = fs
    root = _FsPath('/mpgverif-index')

    def cp(e, m, mw, ln):
        return CleavageParams(enzyme=ENZ[e], exception=None, miscleavage=m, min_mw=mw, min_length=ln, max_length=25)

    p1, p2 = cp(e1, m1, mw1, l1), cp(e2, m2, mw2, l2)
    same = p1.jsonfy(graph_params=False) == p2.jsonfy(graph_params=False)
    if same:
        return SKIP
    with patched((idx, 'open', fs.open), (idx, 'pickle', _Pickle)):
        d = IndexDir(root)
        d.save_canonical_peptides({'POOL1'}, p1)
        d.save_canonical_peptides({'POOL2'}, p2)
        d.save_metadata()
        again = IndexDir(root)
        if len(again.metadata.canonical_pools) != 2:
            return -1
        for want, params in (({'POOL1'}, cp(e1, m1, mw1, l1)), ({'POOL2'}, cp(e2, m2, mw2, l2))):
            try:
                got = again.load_canonical_peptides(params)
            except ValueError:
                return -6          # registered parameters are not found after reopening the directory
            if got != want:
                return -8
    return OK




@cond('C12', bounds='two pools registered with parameters from: enzyme in 2, miscleavage in {0, 1, 2}, min_mw in {0, 500}, '
      'min_length in {0, 7}; metadata saved as JSON text and read back by a NEW IndexDir object', encodes=[
      'moPepGen.index.IndexDir.save_metadata / load_metadata / load_canonical_peptides', 'moPepGen.index.IndexMetadata.jsonfy',
      'moPepGen.params.CleavageParams.jsonfy'], stubs=['moPepGen.index.open / pickle -> dict-backed file system (JSON text is '
      'written and parsed by the real json module)', 'Path.exists -> dict-backed file system'],
      codes={-1: 'number of registered pools changed on reopening', -6: 'registered parameters are not found after reopening '
             'the index directory', -8: "load returned another parameter set's pool"}, shim=False, timeout=400)
def c12_metadata_reopen(e1: int, m1: int, z1: bool, l1: bool, e2: int, m2: int, z2: bool, l2: bool) -> int:
    """
    pre: 0 <= e1 <= 1 and 0 <= e2 <= 1
    pre: 0 <= m1 <= 2 and 0 <= m2 <= 2
    post: _ >= 0
    """
    return _reopen(concretize(e1, 0, 1), concretize(m1, 0, 2), 0. if z1 else 500., 0 if l1 else 7,
                   concretize(e2, 0, 1), concretize(m2, 0, 2), 0. if z2 else 500., 0 if l2 else 7)


# --------------------------------------------------------------------------
# plumbing
# --------------------------------------------------------------------------
_REAL_SIG = inspect.signature(aa.AminoAcidSeqDict.create_unique_peptide_pool)


class _Proteome(dict):
    """records the effective digestion parameters (defaults of the REAL signature applied)"""
    log = []

    def dump_fasta(self, *a, **k):
        pass

    def create_unique_peptide_pool(self, *a, **kw):
        b = _REAL_SIG.bind(self, *a, **kw)
        b.apply_defaults()
        _Proteome.log.append(dict(b.arguments))
        return {'POOL'}


class _Genome(dict):
    def dump_fasta(self, *a, **k):
        pass


class _AnnoOnDisk:
    transcripts = {}
    source = 'S'

    def generate_index(self, *a, **k):
        pass

    def check_protein_coding(self, *a, **k):
        pass


class _FakeIndexDir:
    last = None

    def __init__(self, path):
        self.path = path
        self.saved = []
        self.looked_up = []
        self.metadata = self
        self.source = None
        _FakeIndexDir.last = self

    # metadata facade
    def get_canonical_pool(self, cp):
        self.looked_up.append(cp)
        return None

    def validate_metadata(self):
        return True

    def load_annotation(self):
        return _AnnoOnDisk()

    def load_proteome(self):
        return _Proteome()

    def save_genome(self, g):
        pass

    def save_proteome(self, p):
        pass

    def save_annotation(self, **k):
        return _AnnoOnDisk()

    def save_canonical_peptides(self, seqs, cp, override=False):
        self.saved.append(cp)

    def save_coding_tx(self, x):
        pass

    def save_metadata(self):
        pass

    def init_metadata(self):
        pass

    def wipe_canonical_peptides(self):
        pass


class _Dir:
    """stands in for the pathlib.Path of the output directory"""

    def mkdir(self, exist_ok=False):
        pass

    def iterdir(self):
        return iter(())


def _args(e, x, m, mw, lo, hi):
    return argparse.Namespace(
        cleavage_rule=ENZ[e], cleavage_exception=EXC[x], miscleavage=m, min_mw=mw,
        min_length=lo, max_length=hi, invalid_protein_as_noncoding=False, force=False,
        index_dir=None, output_dir=_Dir(), genome_fasta='g', annotation_gtf='a',
        proteome_fasta='p', reference_source=None, gtf_symlink=False, command='x')


def _same(used, cp):
    """digestion parameters actually used == parameters of the CleavageParams object"""
    if used['rule'] != cp.enzyme:
        return -1
    if used['exception'] != cp.exception:
        return -2
    if used['miscleavage'] != cp.miscleavage:
        return -3
    if used['min_mw'] != cp.min_mw:
        return -4
    if used['min_length'] != cp.min_length:
        return -5
    if used['max_length'] != cp.max_length:
        return -6
    return OK


CODES_P = {-1: 'pool digested with another enzyme than it is registered/used under',
           -2: 'pool digested with another cleavage exception than it is registered/used under',
           -3: 'pool digested with another miscleavage limit', -4: 'pool digested with another min_mw',
           -5: 'pool digested with another min_length', -6: 'pool digested with another max_length',
           -7: 'pool not created / saved exactly once',
           -8: 'registered parameters differ from the requested ones'}
_PB = ('enzyme in {trypsin, lysc}, exception in {auto, None, trypsin_exception}, unbounded integer '
       'miscleavage / min_length / max_length; min_mw fixed (321, a non-default value)')
_PSTUBS = ['IndexDir, dna.DNASeqDict, aa.AminoAcidSeqDict, gtf.GenomicAnnotationOnDisk -> recording '
           'fakes; get_logger / print_start_message -> no-op']


def _requested_ok(cp, e, x, m, mw, lo, hi):
    want = _key(e, x, m, mw, lo, hi)
    got = (cp.enzyme, cp.exception, cp.miscleavage, cp.min_mw, cp.min_length, cp.max_length)
    return got == want


class _AAFake:
    AminoAcidSeqDict = _Proteome


class _DNAFake:
    DNASeqDict = _Genome


class _GTFFake:
    GenomicAnnotationOnDisk = _AnnoOnDisk


def _c12_plumb_generate(e, x, m, lo, hi):
    _Proteome.log = []
    mw = 321
    with patched((gi, 'IndexDir', _FakeIndexDir), (gi, 'aa', _AAFake), (gi, 'dna', _DNAFake),
                 (gi, 'get_logger', lambda: NullLogger()),
                 (gi.common, 'print_start_message', lambda a: None)):
        gi.generate_index(_args(e, x, m, mw, lo, hi))
    d = _FakeIndexDir.last
    if len(_Proteome.log) != 1 or len(d.saved) != 1:
        return -7
    if not _requested_ok(d.saved[0], e, x, m, mw, lo, hi):
        return -8
    return _same(_Proteome.log[0], d.saved[0])


@cond('C12', bounds='generateIndex: ' + _PB, encodes=['moPepGen.cli.generate_index.generate_index'],
      stubs=_PSTUBS, codes=CODES_P, shim=False, timeout=200)
def c12_plumb_generate(e: int, x: int, m: int, lo: int, hi: int) -> int:
    """
    pre: 0 <= e <= 1 and 0 <= x <= 2
    post: _ >= 0
    """
    return _c12_plumb_generate(e, x, m, lo, hi)


def _c12_plumb_update(e, x, m, lo, hi):
    _Proteome.log = []
    mw = 321
    a = _args(e, x, m, mw, lo, hi)
    a.index_dir = 'IDX'
    with patched((ui, 'IndexDir', _FakeIndexDir), (ui, 'get_logger', lambda: NullLogger()),
                 (ui.common, 'print_start_message', lambda a: None)):
        ui.update_index(a)
    d = _FakeIndexDir.last
    if len(_Proteome.log) != 1 or len(d.saved) != 1 or len(d.looked_up) != 1:
        return -7
    if not _requested_ok(d.saved[0], e, x, m, mw, lo, hi):
        return -8
    if not _requested_ok(d.looked_up[0], e, x, m, mw, lo, hi):
        return -8
    return _same(_Proteome.log[0], d.saved[0])


@cond('C12', bounds='updateIndex: ' + _PB, encodes=['moPepGen.cli.update_index.update_index'],
      stubs=_PSTUBS, codes=CODES_P, shim=False, timeout=200)
def c12_plumb_update(e: int, x: int, m: int, lo: int, hi: int) -> int:
    """
    pre: 0 <= e <= 1 and 0 <= x <= 2
    post: _ >= 0
    """
    return _c12_plumb_update(e, x, m, lo, hi)


def _c10_plumb_load_references(e, x, m, lo, hi):
    _Proteome.log = []
    mw = 321
    a = _args(e, x, m, mw, lo, hi)
    # the CleavageParams object the calling commands build from the same arguments
    cp = CleavageParams(enzyme=a.cleavage_rule, exception=a.cleavage_exception,
                        miscleavage=int(a.miscleavage), min_mw=float(a.min_mw),
                        min_length=a.min_length, max_length=a.max_length)
    with patched((common, 'aa', _AAFake), (common, 'dna', _DNAFake), (common, 'gtf', _GTFFake),
                 (common, 'get_logger', lambda: NullLogger())):
        _, _, _, pool = common.load_references(args=a, cleavage_params=cp)
    if len(_Proteome.log) != 1 or pool != {'POOL'}:
        return -7
    return _same(_Proteome.log[0], cp)


@cond('C10', bounds='on-the-fly pool in load_references (no index dir): ' + _PB,
      encodes=['moPepGen.cli.common.load_references'], stubs=_PSTUBS, codes=CODES_P, shim=False,
      timeout=200)
def c10_plumb_load_references(e: int, x: int, m: int, lo: int, hi: int) -> int:
    """
    pre: 0 <= e <= 1 and 0 <= x <= 2
    post: _ >= 0
    """
    return _c10_plumb_load_references(e, x, m, lo, hi)


@cond('C04', bounds='canonical pool used for filtering is digested with the same cleavage settings as '
      'the command run (on-the-fly branch of load_references): ' + _PB,
      encodes=['moPepGen.cli.common.load_references'], stubs=_PSTUBS, codes=CODES_P, shim=False,
      timeout=200)
def c04_pool_same_settings(e: int, x: int, m: int, lo: int, hi: int) -> int:
    """
    pre: 0 <= e <= 1 and 0 <= x <= 2
    post: _ >= 0
    """
    return _c10_plumb_load_references(e, x, m, lo, hi)


@cond('C06', bounds='raw reference vs index directory: both digest the canonical pool with the same resolved '
      'parameters (generate_index registers what load_references would digest on the fly): ' + _PB,
      encodes=['moPepGen.cli.common.load_references', 'moPepGen.cli.generate_index.generate_index'],
      stubs=_PSTUBS, codes=CODES_P, shim=False, timeout=200)
def c06_raw_vs_index_pool(e: int, x: int, m: int, lo: int, hi: int) -> int:
    """
    pre: 0 <= e <= 1 and 0 <= x <= 2
    post: _ >= 0
    """
    r = _c10_plumb_load_references(e, x, m, lo, hi)
    if r != OK:
        return r
    raw = dict(_Proteome.log[0])
    r = _c12_plumb_generate(e, x, m, lo, hi)
    if r != OK:
        return r
    idx = dict(_Proteome.log[0])
    for k in ('rule', 'exception', 'miscleavage', 'min_mw', 'min_length', 'max_length'):
        if raw[k] != idx[k]:
            return -9
    return OK


CODES_P[-9] = 'the raw-reference path and generateIndex digest the canonical pool with different parameters'


# --------------------------------------------------------------------------
# version gate: an index whose recorded versions do not match is rejected before anything is loaded
# --------------------------------------------------------------------------
class _GateIndexDir:
    """records the order of calls; the REAL IndexDir.validate_metadata / MetaVersion.is_valid run"""
    last = None
    recorded = None

    def __init__(self, path):
        self.calls = []
        self.metadata = IndexMetadata(version=_GateIndexDir.recorded, canonical_pools=[], source='S')
        _GateIndexDir.last = self

    def validate_metadata(self):
        self.calls.append('validate')
        return IndexDir.validate_metadata(self)

    def load_canonical_peptides(self, cp):
        self.calls.append('pool')
        return {'POOL'}

    def load_genome(self):
        self.calls.append('genome')
        return 'GENOME'

    def load_annotation(self):
        self.calls.append('anno')
        return _AnnoOnDisk()

    def load_proteome(self):
        self.calls.append('proteome')
        return _Proteome()


def _gate(py_same, bio_same, a, b, c, load_genome, load_pool, load_proteome, as_noncoding):
    cur = MetaVersion()
    _GateIndexDir.recorded = MetaVersion(python=cur.python if py_same else '2.7.18',
                                         biopython=cur.biopython if bio_same else '0.1',
                                         mopepgen=f'{concretize(a, 0, 2)}.{concretize(b, 0, 4)}.{concretize(c, 0, 1)}')
    valid = py_same and bio_same and (a, b, c) >= (1, 3, 0)
    args = _args(0, 0, 2, 500, 7, 25)
    args.index_dir = 'IDX'
    cp = CleavageParams(enzyme='trypsin', exception='auto')
    from moPepGen import err
    with patched((common, 'IndexDir', _GateIndexDir), (common, 'get_logger', lambda: NullLogger())):
        try:
            common.load_references(args=args, load_genome=load_genome, load_canonical_peptides=load_pool,
                                   load_proteome=load_proteome, invalid_protein_as_noncoding=as_noncoding,
                                   cleavage_params=cp)
            raised = False
        except err.InvalidIndexError:
            raised = True
    calls = _GateIndexDir.last.calls
    if valid and raised:
        return -1                  # a matching index was rejected
    if not valid:
        if not raised:
            return -2              # an index with non-matching versions was used
        if any(x != 'validate' for x in calls):
            return -3              # data was loaded from an index that is then rejected
        return OK
    if not calls or calls[0] != 'validate':
        return -3
    return OK


from mpgverif.hlib import concretize  # noqa: E402


@cond('C12', bounds='load_references from an index directory for every combination of its load flags; recorded versions: '
      'python / biopython equal or different, moPepGen version a.b.c with a in 0..2, b in 0..4, c in 0..1 (gate 1.3.0)',
      encodes=['moPepGen.cli.common.load_references (index branch)', 'moPepGen.index.IndexDir.validate_metadata',
               'moPepGen.version.MetaVersion.is_valid / is_valid_mpg_version / get_semver'],
      stubs=['IndexDir loaders -> recorder (validate_metadata and MetaVersion real)'],
      codes={-1: 'an index with matching versions was rejected',
             -2: 'an index whose recorded versions do not match was used instead of rejected',
             -3: 'data was loaded before / despite the version check'}, shim=False, timeout=400)
def c12_version_gate(py_same: bool, bio_same: bool, a: int, b: int, c: int, load_genome: bool,
                     load_pool: bool, load_proteome: bool, as_noncoding: bool) -> int:
    """
    pre: 0 <= a <= 2 and 0 <= b <= 4 and 0 <= c <= 1
    post: _ >= 0
    """
    return _gate(py_same, bio_same, a, b, c, load_genome, load_pool, load_proteome, as_noncoding)
