"""C14 (VEP half): VEPRecord.convert_to_variant_record on symbolic genomes.

Oracle (elementwise, for an arbitrary probe index j): the genomic event is "replace genomic
[a, b) by the plus-strand allele A".  REF must equal the gene sequence at the record's
location, and gene[:s] + ALT + gene[e:] must equal the gene re-extracted from the modified
chromosome.  Events whose interval touches the transcript boundary may be rejected; an
accepted record must lie inside the transcript span."""
from typing import List

from moPepGen import dna
from moPepGen.err import (TranscriptionStartSiteMutationError,
                          TranscriptionStopSiteMutationError)
from moPepGen.parser.VEPParser import VEPRecord
from mpgverif.harness.annobuild import anno_one_gene
from mpgverif.hlib import OK, SKIP, comp, cond, mkseq, under_shim

USE_SHIM = True
USE_TOKENS = True

ENC = ['moPepGen.parser.VEPParser.VEPRecord.convert_to_variant_record',
       'moPepGen.gtf.GeneAnnotationModel.get_gene_sequence',
       'moPepGen.gtf.GenomicAnnotation.coordinate_genomic_to_gene']


def mkstr(points):
    if under_shim():
        from mpgverif.bioshim import _to_str
        return _to_str(points)
    return ''.join(chr(c) for c in points)


def _vep(location, allele, nf_tag):
    return VEPRecord(uploaded_variation='v', location=location, allele=allele, gene='G1', feature='T1',
                     feature_type='Transcript', consequences=['x'], cdna_position='1', cds_position='1',
                     protein_position='1', amino_acids=('A', 'B'), codons=('a', 'b'),
                     existing_variation='-', extra={})


def _check(genome, gs, ge, ts, te, strand, nf, start1, end1, allele, j):
    """start1/end1: 1-based inclusive VEP location; allele: plus-strand code points ([] = '-')"""
    n = len(genome)
    if not (0 <= gs <= ts < te <= ge <= n):
        return SKIP
    # the genomic event
    la = len(allele)
    if la == 0:
        a, b = start1 - 1, end1                       # deletion
        if not a < b:
            return SKIP
    elif end1 == start1 + 1:
        a, b = start1, start1                         # insertion between the two flanking bases
    elif end1 == start1:
        a, b = start1 - 1, start1                     # SNV, or insertion anchored on one base
    else:
        a, b = start1 - 1, end1                       # substitution
        if b - a < 3:
            return SKIP
    if not (gs <= a and b <= ge and 1 <= start1 and start1 - 1 < ge):
        return SKIP
    if not (gs < end1 <= ge):
        return SKIP
    if la > 1 and end1 == start1:
        # VEP reports such insertions with the anchor base at either end of the allele
        g = genome[a]
        if not (allele[0] == g or allele[-1] == g):
            return SKIP
    tags = ['cds_start_NF'] if nf else None
    anno = anno_one_gene(gs, ge, strand, [(ts, te)], tags=tags)
    chrom = {'chr1': dna.DNASeqRecord(mkseq(genome), id='chr1', name='chr1', description='chr1')}
    loc = f"chr1:{start1}" if end1 == start1 else f"chr1:{start1}-{end1}"
    rec_in = _vep(loc, '-' if la == 0 else mkstr(allele), nf)
    # gene coordinates of the event and of the transcript
    if strand == 1:
        ev_s, ev_e = a - gs, b - gs
        tx_s, tx_e = ts - gs, te - gs
    else:
        ev_s, ev_e = ge - b, ge - a
        tx_s, tx_e = ge - te, ge - ts
    touches = ev_s <= tx_s or ev_e >= tx_e or (a == b and (ev_s <= tx_s + 1))
    try:
        r = rec_in.convert_to_variant_record(anno, chrom)
    except (TranscriptionStartSiteMutationError, TranscriptionStopSiteMutationError, ValueError):
        return OK if touches else -1                  # event inside the transcript rejected
    s, e = r.location.start, r.location.end
    if s < tx_s or e > tx_e:
        return -2                                     # record placed outside the transcript
    if a == b and ev_s >= tx_e:
        return -7                                     # insertion at / beyond the transcript's 3' boundary accepted
    ref = [ord(c) for c in r.ref]
    alt = [ord(c) for c in r.alt]
    if e - s != len(ref):
        return -3

    def gene(k):                                      # reference gene sequence
        return genome[gs + k] if strand == 1 else comp(genome[ge - 1 - k])

    glen = ge - gs
    for k in range(len(ref)):
        if ref[k] != gene(s + k):
            return -4                                 # REF differs from the gene sequence
    # modified chromosome, re-extracted gene
    delta = la - (b - a)

    def genome2(i):
        if i < a:
            return genome[i]
        if i < a + la:
            return allele[i - a]
        return genome[i - delta]

    def gene2(k):
        return genome2(gs + k) if strand == 1 else comp(genome2(ge + delta - 1 - k))

    def applied(k):
        if k < s:
            return gene(k)
        if k < s + len(alt):
            return alt[k - s]
        return gene(k - len(alt) + len(ref))

    if glen + len(alt) - len(ref) != glen + delta:
        return -5                                     # length change differs from the genomic event
    if 0 <= j < glen + delta:
        if applied(j) != gene2(j):
            return -6                                 # applying the record != applying the genomic event
    return OK


CODES = {-1: 'an event strictly inside the transcript was rejected',
         -2: 'record placed outside / across the transcript boundary instead of being rejected',
         -3: 'REF length differs from the record location', -4: 'REF differs from the gene sequence',
         -5: 'length change of the record differs from the genomic event',
         -6: 'applying the record to the gene sequence differs from applying the genomic event to the chromosome',
         -7: "an insertion lying on the transcript's 3' boundary (after its last base) was accepted instead of rejected"}
_BQ = ('chromosome of length 5 (any letters A-Z), gene span and transcript span symbolic, cds_start_NF '
       'symbolic, location symbolic, arbitrary probe position')
_B = ('chromosome of length 6 (any letters A-Z), gene span and transcript span symbolic, cds_start_NF '
      'symbolic, location symbolic, arbitrary probe position')


@cond('C14', bounds='SNV, plus and minus strand; ' + _B, encodes=ENC, codes=CODES, tokens=True, timeout=1500, tiers=('thorough',))
def c14_vep_snv(genome: List[int], gs: int, ge: int, ts: int, te: int, plus: bool, nf: bool,
                pos: int, base: int, j: int) -> int:
    """
    pre: len(genome) == 6
    pre: all(65 <= c <= 90 for c in genome)
    pre: 65 <= base <= 90
    post: _ >= 0
    """
    return _check(genome, gs, ge, ts, te, 1 if plus else -1, nf, pos, pos, [base], j)


@cond('C14', bounds='deletion of 1..3 bases, plus strand; ' + _B, encodes=ENC, codes=CODES, tokens=True,
      timeout=1500, tiers=('thorough',))
def c14_vep_del_plus(genome: List[int], gs: int, ge: int, ts: int, te: int, nf: bool, start1: int,
                     end1: int, j: int) -> int:
    """
    pre: len(genome) == 6
    pre: all(65 <= c <= 90 for c in genome)
    pre: start1 <= end1 <= start1 + 2
    post: _ >= 0
    """
    return _check(genome, gs, ge, ts, te, 1, nf, start1, end1, [], j)


@cond('C14', bounds='deletion of 1..3 bases, minus strand; ' + _B, encodes=ENC, codes=CODES, tokens=True,
      timeout=1500, tiers=('thorough',))
def c14_vep_del_minus(genome: List[int], gs: int, ge: int, ts: int, te: int, nf: bool, start1: int,
                      end1: int, j: int) -> int:
    """
    pre: len(genome) == 6
    pre: all(65 <= c <= 90 for c in genome)
    pre: start1 <= end1 <= start1 + 2
    post: _ >= 0
    """
    return _check(genome, gs, ge, ts, te, -1, nf, start1, end1, [], j)


@cond('C14', bounds='insertion of 1..2 bases between two flanking bases (VEP start-end form), both strands; ' + _B,
      encodes=ENC, codes=CODES, tokens=True, timeout=1500, tiers=('thorough',))
def c14_vep_ins_between(genome: List[int], gs: int, ge: int, ts: int, te: int, plus: bool, nf: bool,
                        start1: int, allele: List[int], j: int) -> int:
    """
    pre: len(genome) == 6
    pre: all(65 <= c <= 90 for c in genome)
    pre: 1 <= len(allele) <= 2
    pre: all(65 <= c <= 90 for c in allele)
    post: _ >= 0
    """
    return _check(genome, gs, ge, ts, te, 1 if plus else -1, nf, start1, start1 + 1, allele, j)


@cond('C14', bounds='insertion reported on one anchor base (allele of 2 bases starting or ending with the '
      'reference base), plus strand; ' + _B, encodes=ENC, codes=CODES, tokens=True, timeout=1500, tiers=('thorough',))
def c14_vep_ins_anchor_plus2(genome: List[int], gs: int, ge: int, ts: int, te: int, nf: bool,
                       pos: int, allele: List[int], j: int) -> int:
    """
    pre: len(genome) == 6
    pre: all(65 <= c <= 90 for c in genome)
    pre: len(allele) == 2
    pre: all(65 <= c <= 90 for c in allele)
    post: _ >= 0
    """
    return _check(genome, gs, ge, ts, te, 1, nf, pos, pos, allele, j)


@cond('C14', bounds='insertion reported on one anchor base (allele of 3 bases starting or ending with the '
      'reference base), plus strand; ' + _B, encodes=ENC, codes=CODES, tokens=True, timeout=1500, tiers=('thorough',))
def c14_vep_ins_anchor_plus3(genome: List[int], gs: int, ge: int, ts: int, te: int, nf: bool,
                       pos: int, allele: List[int], j: int) -> int:
    """
    pre: len(genome) == 6
    pre: all(65 <= c <= 90 for c in genome)
    pre: len(allele) == 3
    pre: all(65 <= c <= 90 for c in allele)
    post: _ >= 0
    """
    return _check(genome, gs, ge, ts, te, 1, nf, pos, pos, allele, j)


@cond('C14', bounds='insertion reported on one anchor base (allele of 2 bases starting or ending with the '
      'reference base), minus strand; ' + _B, encodes=ENC, codes=CODES, tokens=True, timeout=1500, tiers=('thorough',))
def c14_vep_ins_anchor_minus2(genome: List[int], gs: int, ge: int, ts: int, te: int, nf: bool,
                       pos: int, allele: List[int], j: int) -> int:
    """
    pre: len(genome) == 6
    pre: all(65 <= c <= 90 for c in genome)
    pre: len(allele) == 2
    pre: all(65 <= c <= 90 for c in allele)
    post: _ >= 0
    """
    return _check(genome, gs, ge, ts, te, -1, nf, pos, pos, allele, j)


@cond('C14', bounds='insertion reported on one anchor base (allele of 3 bases starting or ending with the '
      'reference base), minus strand; ' + _B, encodes=ENC, codes=CODES, tokens=True, timeout=1500, tiers=('thorough',))
def c14_vep_ins_anchor_minus3(genome: List[int], gs: int, ge: int, ts: int, te: int, nf: bool,
                       pos: int, allele: List[int], j: int) -> int:
    """
    pre: len(genome) == 6
    pre: all(65 <= c <= 90 for c in genome)
    pre: len(allele) == 3
    pre: all(65 <= c <= 90 for c in allele)
    post: _ >= 0
    """
    return _check(genome, gs, ge, ts, te, -1, nf, pos, pos, allele, j)


@cond('C14', bounds='substitution of 3 bases by 1..3 bases, both strands; ' + _B, encodes=ENC, codes=CODES,
      tokens=True, timeout=1500, tiers=('thorough',))
def c14_vep_sub(genome: List[int], gs: int, ge: int, ts: int, te: int, plus: bool, nf: bool,
                start1: int, allele: List[int], j: int) -> int:
    """
    pre: len(genome) == 6
    pre: all(65 <= c <= 90 for c in genome)
    pre: 1 <= len(allele) <= 3
    pre: all(65 <= c <= 90 for c in allele)
    post: _ >= 0
    """
    return _check(genome, gs, ge, ts, te, 1 if plus else -1, nf, start1, start1 + 2, allele, j)


# ---- quick tier: same conditions on a chromosome of length 5
@cond('C14', bounds='SNV, plus and minus strand; ' + _BQ, encodes=ENC, codes=CODES, tokens=True, timeout=600)
def c14_vep_snv_q(genome: List[int], gs: int, ge: int, ts: int, te: int, plus: bool, nf: bool,
                pos: int, base: int, j: int) -> int:
    """
    pre: len(genome) == 5
    pre: all(65 <= c <= 90 for c in genome)
    pre: 65 <= base <= 90
    post: _ >= 0
    """
    return _check(genome, gs, ge, ts, te, 1 if plus else -1, nf, pos, pos, [base], j)


@cond('C14', bounds='deletion of 1..3 bases, plus strand; ' + _BQ, encodes=ENC, codes=CODES, tokens=True,
      timeout=600)
def c14_vep_del_plus_q(genome: List[int], gs: int, ge: int, ts: int, te: int, nf: bool, start1: int,
                     end1: int, j: int) -> int:
    """
    pre: len(genome) == 5
    pre: all(65 <= c <= 90 for c in genome)
    pre: start1 <= end1 <= start1 + 2
    post: _ >= 0
    """
    return _check(genome, gs, ge, ts, te, 1, nf, start1, end1, [], j)


@cond('C14', bounds='deletion of 1..3 bases, minus strand; ' + _BQ, encodes=ENC, codes=CODES, tokens=True,
      timeout=600)
def c14_vep_del_minus_q(genome: List[int], gs: int, ge: int, ts: int, te: int, nf: bool, start1: int,
                      end1: int, j: int) -> int:
    """
    pre: len(genome) == 5
    pre: all(65 <= c <= 90 for c in genome)
    pre: start1 <= end1 <= start1 + 2
    post: _ >= 0
    """
    return _check(genome, gs, ge, ts, te, -1, nf, start1, end1, [], j)


@cond('C14', bounds='insertion of 1..2 bases between two flanking bases (VEP start-end form), both strands; ' + _BQ,
      encodes=ENC, codes=CODES, tokens=True, timeout=600)
def c14_vep_ins_between_q(genome: List[int], gs: int, ge: int, ts: int, te: int, plus: bool, nf: bool,
                        start1: int, allele: List[int], j: int) -> int:
    """
    pre: len(genome) == 5
    pre: all(65 <= c <= 90 for c in genome)
    pre: 1 <= len(allele) <= 2
    pre: all(65 <= c <= 90 for c in allele)
    post: _ >= 0
    """
    return _check(genome, gs, ge, ts, te, 1 if plus else -1, nf, start1, start1 + 1, allele, j)


@cond('C14', bounds='insertion reported on one anchor base (allele of 2..3 bases starting or ending with the '
      'reference base), plus strand; ' + _BQ, encodes=ENC, codes=CODES, tokens=True, timeout=600)
def c14_vep_ins_anchor_plus_q(genome: List[int], gs: int, ge: int, ts: int, te: int, nf: bool,
                       pos: int, allele: List[int], j: int) -> int:
    """
    pre: len(genome) == 5
    pre: all(65 <= c <= 90 for c in genome)
    pre: len(allele) == 2
    pre: all(65 <= c <= 90 for c in allele)
    post: _ >= 0
    """
    return _check(genome, gs, ge, ts, te, 1, nf, pos, pos, allele, j)


@cond('C14', bounds='insertion reported on one anchor base (allele of 2..3 bases starting or ending with the '
      'reference base), minus strand; ' + _BQ, encodes=ENC, codes=CODES, tokens=True, timeout=600)
def c14_vep_ins_anchor_minus_q(genome: List[int], gs: int, ge: int, ts: int, te: int, nf: bool,
                       pos: int, allele: List[int], j: int) -> int:
    """
    pre: len(genome) == 5
    pre: all(65 <= c <= 90 for c in genome)
    pre: len(allele) == 2
    pre: all(65 <= c <= 90 for c in allele)
    post: _ >= 0
    """
    return _check(genome, gs, ge, ts, te, -1, nf, pos, pos, allele, j)


@cond('C14', bounds='substitution of 3 bases by 1..3 bases, both strands; ' + _BQ, encodes=ENC, codes=CODES,
      tokens=True, timeout=600)
def c14_vep_sub_q(genome: List[int], gs: int, ge: int, ts: int, te: int, plus: bool, nf: bool,
                start1: int, allele: List[int], j: int) -> int:
    """
    pre: len(genome) == 5
    pre: all(65 <= c <= 90 for c in genome)
    pre: 1 <= len(allele) <= 3
    pre: all(65 <= c <= 90 for c in allele)
    post: _ >= 0
    """
    return _check(genome, gs, ge, ts, te, 1 if plus else -1, nf, start1, start1 + 2, allele, j)
