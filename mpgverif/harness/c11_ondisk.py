"""C11-4/5: on-disk annotation: pointer cache (one inductive step from an arbitrary valid
state), GTF byte-range pointers (partition of the file into gene / transcript runs), GTF
line round trip.  Rendered integers use the token model."""
from collections import deque
from typing import List

import moPepGen.gtf.GTFPointer as gp
from moPepGen.gtf import GtfIO
from moPepGen.gtf.GTFPointer import (GenePointer, GenePointerDict, TranscriptPointer,
                                     TranscriptPointerDict)
from mpgverif.harness.annobuild import feat
from mpgverif.hlib import OK, SKIP, concretize, cond, patched

USE_SHIM = True
USE_TOKENS = True

KEYS = ['K0', 'K1', 'K2', 'K3', 'K4']


class _Model:
    """what a stubbed pointer.load() returns"""

    def __init__(self, key):
        self.key = key
        self.is_protein_coding = None
        self.transcript = self
        self.source = None


def _cache_step(kind, state, k):
    """state: distinct key indices currently cached, most recent first; k: key accessed"""
    n = len(state)
    for i in range(n):
        if not 0 <= state[i] <= 4:
            return SKIP
        for j in range(i):
            if state[i] == state[j]:
                return SKIP
    loads = []

    def fake_load(self):
        loads.append(self.key)
        return _Model(self.key)

    if kind == 0:
        d = GenePointerDict()
        cls = GenePointer
        for key in KEYS:
            d[key] = GenePointer(None, key, 0, 1, 'S')
    else:
        d = TranscriptPointerDict()
        cls = TranscriptPointer
        for key in KEYS:
            d[key] = TranscriptPointer(None, key, 0, 1, 'S', is_protein_coding=(key == 'K1'))
    # arbitrary state satisfying the representation invariant
    d._cache = {KEYS[i]: _Model(KEYS[i]) for i in state}
    d._cached_keys = deque(KEYS[i] for i in state)
    with patched((cls, 'load', fake_load), (gp, 'GENE_DICT_CACHE_SIZE', 3),
                 (gp, 'TX_DICT_CACHE_SIZE', 3)):
        v = d[KEYS[k]]
    if v.key != KEYS[k]:
        return -1                  # wrong model returned
    hit = any(state[i] == k for i in range(n))
    if hit and loads:
        return -2                  # cached model reloaded (not wrong, but invariant of the cache)
    if not hit and loads != [KEYS[k]]:
        return -3
    if kind == 1 and not hit:
        if v.is_protein_coding != (KEYS[k] == 'K1') or v.source != 'S':
            return -4              # pointer metadata not attached to the loaded model
    # invariant after the step
    keys_after = list(d._cached_keys)
    if len(keys_after) > 3:
        return -5
    if len(set(keys_after)) != len(keys_after):
        return -6
    if set(keys_after) != set(d._cache):
        return -7
    for key, m in d._cache.items():
        if m.key != key:
            return -8
    if KEYS[k] not in d._cache:
        return -9
    return OK


CODES_C = {-1: 'on-disk dictionary returned the model of another key', -2: 'cache hit reloaded',
           -3: 'miss did not load exactly the requested key',
           -4: 'is_protein_coding / source of the pointer not attached to the loaded model',
           -5: 'cache grew beyond its size', -6: 'duplicate key in the cache queue',
           -7: 'cache queue and cache dict disagree', -8: 'cache maps a key to another key\'s model',
           -9: 'accessed key not cached afterwards'}
ENC_C = ['moPepGen.gtf.GTFPointer.GenePointerDict.__getitem__',
         'moPepGen.gtf.GTFPointer.TranscriptPointerDict.__getitem__']


@cond('C11', bounds='one access from ANY valid cache state (<=3 of 5 keys cached, cache size patched '
      'to 3), gene and transcript dictionaries: inductive step, covers access histories of any length',
      encodes=ENC_C, stubs=['GenePointer.load / TranscriptPointer.load -> per-key token',
                            'GENE_DICT_CACHE_SIZE, TX_DICT_CACHE_SIZE -> 3'],
      codes=CODES_C, tokens=True, timeout=300)
def c11_pointer_cache_step(kind: int, state: List[int], k: int) -> int:
    """
    pre: 0 <= kind <= 1
    pre: len(state) <= 3
    pre: 0 <= k <= 4
    post: _ >= 0
    """
    return _cache_step(kind, state, k)


# --------------------------------------------------------------------------
# GTF line round trip
# --------------------------------------------------------------------------
TYPES = ['gene', 'transcript', 'exon', 'CDS', 'three_prime_utr', 'Selenocysteine']


def _line_roundtrip(start, end, strand_i, frame_i, type_i, has_tag, has_pid, coding_i):
    strand = [1, -1, 0][strand_i]
    frame = [None, 0, 1, 2][frame_i]
    attrs = {'gene_id': 'G1', 'transcript_id': 'T1', 'gene_name': 'N1', 'gene_type': 'lncRNA'}
    if has_pid:
        attrs['protein_id'] = 'P1'
    if has_tag:
        attrs['tag'] = ['basic', 'cds_start_NF']
    rec = feat('chr1', start, end, strand, TYPES[type_i], attrs, frame=frame)
    coding = [None, True, False][coding_i]
    line = GtfIO.to_gtf_record(rec, coding)
    back = GtfIO.line_to_seq_feature(line)
    if back.location.start != start or back.location.end != end:
        return -1
    if back.location.strand != (strand if strand != 0 else None):
        return -2
    if back.frame != frame:
        return -3
    if back.type != TYPES[type_i] or back.chrom != 'chr1':
        return -4
    want = dict(attrs)
    if coding is not None:
        want['is_protein_coding'] = 'true' if coding else 'false'
    if back.attributes != want:
        return -5
    # text fixpoint
    if GtfIO.to_gtf_record(back) != GtfIO.to_gtf_record(rec, coding):
        return -6
    return OK


CODES_L = {-1: 'start/end not preserved by the GTF text round trip', -2: 'strand not preserved',
           -3: 'frame not preserved', -4: 'type/chrom not preserved', -5: 'attributes not preserved',
           -6: 'writing the parsed record does not give the identical line'}


@cond('C11', bounds='one GTF record: start/end < 60000 (tokens), 3 strands, 4 frames, 6 feature types, '
      'optional tag list / protein_id / is_protein_coding', codes=CODES_L, tokens=True,
      encodes=['moPepGen.gtf.GtfIO.to_gtf_record', 'moPepGen.gtf.GtfIO.line_to_seq_feature'], timeout=300)
def c11_gtf_line_roundtrip(start: int, end: int, strand_i: int, frame_i: int, type_i: int,
                           has_tag: bool, has_pid: bool, coding_i: int) -> int:
    """
    pre: 0 <= start < end < 59999
    pre: 0 <= strand_i <= 2 and 0 <= frame_i <= 3 and 0 <= type_i <= 5 and 0 <= coding_i <= 2
    post: _ >= 0
    """
    return _line_roundtrip(start, end, strand_i, frame_i, type_i, has_tag, has_pid, coding_i)


# --------------------------------------------------------------------------
# GTF byte-range pointers
# --------------------------------------------------------------------------
class _Rec:
    def __init__(self, kind, gene, tx):
        self.type = 'gene' if kind == 0 else 'exon'
        self.gene_id = gene
        self.transcript_id = tx
        self.source = None


class _Line:
    """a GTF line with a symbolic byte length"""

    def __init__(self, n, rec):
        self.n, self.rec = n, rec

    def __len__(self):
        return self.n

    def decode(self, enc):
        return self

    def startswith(self, s):
        return self.rec is None


def _layouts(maxlen):
    """all record-line layouts of length <= maxlen: 'g' gene line, 'a'/'b' lines of two
    transcripts; starts with a gene line; a transcript's lines are contiguous in its gene"""
    out = []

    def ok(seq):
        seg = []
        for ch in seq + ['g']:
            if ch == 'g':
                runs = [c for i, c in enumerate(seg) if i == 0 or seg[i - 1] != c]
                if len(runs) != len(set(runs)):
                    return False
                seg = []
            else:
                seg.append(ch)
        return True

    def rec(seq):
        if ok(seq):
            out.append(list(seq))
        if len(seq) < maxlen:
            for ch in 'gab':
                rec(seq + [ch])
    rec(['g'])
    return out


LAYOUTS = sorted(_layouts(4), key=len)
N_LAYOUTS = 38
assert len(LAYOUTS) == N_LAYOUTS, len(LAYOUTS)
assert all(len(l) <= 3 for l in LAYOUTS[:13]) and len(LAYOUTS[13]) == 4


def _gtf_pointers(shape, lens, ncomment):
    layout = LAYOUTS[concretize(shape, 0, len(LAYOUTS) - 1)]
    n = len(layout)
    # `if cur_gene_pointer:` in the implementation takes len(pointer) through the C slot, which needs a
    # concrete int: byte lengths are therefore enumerated from a small domain instead of left unbounded
    lens = [concretize(lens[i], 1, 3) for i in range(n + ncomment)]
    lines = [_Line(lens[i], None) for i in range(ncomment)]
    gene_no = -1
    recs = []
    for i in range(n):
        if layout[i] == 'g':
            gene_no += 1
            r = _Rec(0, f'G{gene_no}', None)
        else:
            r = _Rec(1, f'G{gene_no}', f'G{gene_no}T{layout[i]}')
        recs.append(r)
        lines.append(_Line(lens[ncomment + i], r))
    with patched((gp.GtfIO, 'line_to_seq_feature', lambda line: line.rec)):
        ptrs = list(gp.iterate_pointer(lines, source='S'))
    off = [0]
    for ln in lines:
        off.append(off[-1] + ln.n)
    # expected: one pointer per gene line; one pointer per transcript run
    want = {}
    for i, r in enumerate(recs):
        a, b = off[ncomment + i], off[ncomment + i + 1]
        key = r.gene_id if r.type == 'gene' else r.transcript_id
        if key in want:
            want[key] = (want[key][0], b)
        else:
            want[key] = (a, b)
    got = {}
    for p in ptrs:
        if p.key in got:
            return -1              # two pointers for one entity
        got[p.key] = (p.start, p.end)
    if set(got) != set(want):
        return -2
    for key in want:
        if got[key] != want[key]:
            return -3              # byte range of an entity wrong
    for p in ptrs:
        if isinstance(p, GenePointer):
            exp = {r.transcript_id for r in recs if r.gene_id == p.key and r.transcript_id}
            if set(p.transcripts) != exp:
                return -4          # gene's transcript list wrong
    return OK


CODES_P = {-1: 'two pointers for one gene/transcript', -2: 'set of indexed entities differs from the file',
           -3: 'byte range of an entity differs from its lines',
           -4: "gene pointer's transcript list differs from the transcripts following the gene line"}


@cond('C11', bounds='GTF of <= 1 comment line + every layout of <= 3 record lines (gene lines, lines of '
      '<= 2 transcripts per gene; 13 layouts), byte lengths 1..3 per line', codes=CODES_P,
      tokens=True, encodes=['moPepGen.gtf.GTFPointer.iterate_pointer'],
      stubs=['GtfIO.line_to_seq_feature -> pre-parsed record of the fake line'], timeout=400)
def c11_gtf_iterate_pointer3(shape: int, lens: List[int], ncomment: int) -> int:
    """
    pre: 0 <= shape < 13
    pre: 0 <= ncomment <= 1
    pre: len(lens) == 4
    pre: all(1 <= x <= 3 for x in lens)
    post: _ >= 0
    """
    return _gtf_pointers(shape, lens, ncomment)


@cond('C11', bounds='GTF of <= 1 comment line + every layout of <= 4 record lines (gene lines, lines of '
      '<= 2 transcripts per gene; 38 layouts), byte lengths 1..3 per line', codes=CODES_P,
      tokens=True, encodes=['moPepGen.gtf.GTFPointer.iterate_pointer'],
      stubs=['GtfIO.line_to_seq_feature -> pre-parsed record of the fake line'], timeout=2400,
      tiers=('thorough',))
def c11_gtf_iterate_pointer(shape: int, lens: List[int], ncomment: int) -> int:
    """
    pre: 0 <= shape < 38
    pre: 0 <= ncomment <= 1
    pre: len(lens) == 5
    pre: all(1 <= x <= 3 for x in lens)
    post: _ >= 0
    """
    return _gtf_pointers(shape, lens, ncomment)


# --------------------------------------------------------------------------
# whole annotation: GtfIO.write -> GenomicAnnotation.dump_gtf (real StringIO)
# --------------------------------------------------------------------------
def _file_roundtrip(gs, ge, strand, exons, cs, ce, frame, coding, with_sec):
    import io
    from moPepGen import gtf
    from mpgverif.harness.annobuild import anno_one_gene, exons_valid, tx_index_oracle
    if not exons_valid(gs, ge, exons):
        return SKIP
    if not exons[0][0] <= cs < ce <= exons[-1][1]:
        return SKIP
    cds, utr = [], []
    for s, e in exons:
        a, b = max(s, cs), min(e, ce)
        if a < b:
            cds.append((a, b))
        if s < cs:
            utr.append((s, min(e, cs)))
        if e > ce:
            utr.append((max(s, ce), e))
    if not cds:
        return SKIP
    frames = [0] * len(cds)
    frames[0 if strand == 1 else -1] = frame
    sec = None
    if with_sec:
        a, b = cds[0]
        if b - a < 3:
            return SKIP
        sec = [(a, a + 3)]
    anno = anno_one_gene(gs, ge, strand, exons, cds=cds, cds_frames=frames, sec=sec, coding=coding,
                         tags=['basic', 'cds_start_NF'])
    tm = anno.transcripts['T1']
    tm.utr = [feat('chr1', s, e, strand, 'UTR', dict(tm.transcript.attributes)) for s, e in utr]
    tm.sort_records()
    handle = io.StringIO()
    GtfIO.write(handle, anno)
    handle.seek(0)
    back = gtf.GenomicAnnotation()
    back.dump_gtf(handle, source='GENCODE')
    if set(back.genes) != {'G1'} or set(back.transcripts) != {'T1'}:
        return -1
    g, t = back.genes['G1'], back.transcripts['T1']
    if (g.location.start, g.location.end, g.location.strand) != (gs, ge, strand) or g.transcripts != ['T1']:
        return -2
    if (t.transcript.location.start, t.transcript.location.end) != (exons[0][0], exons[-1][1]):
        return -3

    def ivs(lst):
        return [(f.location.start, f.location.end, f.location.strand) for f in lst]

    for name in ('exon', 'cds', 'utr', 'five_utr', 'three_utr', 'selenocysteine'):
        if ivs(getattr(t, name)) != ivs(getattr(tm, name)):
            return -4              # a feature list of the transcript model changed
    if [c.frame for c in t.cds] != [c.frame for c in tm.cds]:
        return -5
    if t.is_protein_coding != coding:
        return -6
    if t.transcript.attributes.get('tag') != ['basic', 'cds_start_NF'] or not t.is_cds_start_nf():
        return -7
    if t.gene_id != 'G1' or t.transcript_id != 'T1':
        return -8
    return OK


CODES_F = {-1: 'set of genes / transcripts changed', -2: 'gene model changed', -3: 'transcript span changed',
           -4: "a feature list (exon / CDS / UTR / 5'UTR / 3'UTR / Sec) of the transcript model changed",
           -5: 'CDS frames changed', -6: 'is_protein_coding changed', -7: 'tags changed', -8: 'ids changed'}


FILE_ENC = ['moPepGen.gtf.GtfIO.write / to_gtf_record / GtfIterator / line_to_seq_feature',
            'moPepGen.gtf.GenomicAnnotation.dump_gtf / add_gene_record / add_transcript_record',
            'moPepGen.gtf.TranscriptAnnotationModel.add_record / sort_records / split_utr']
FILE_B = ('annotation of 1 gene / 1 transcript with 2 exons, all coordinates symbolic < 59000, strand symbolic, tags; '
          'written with GtfIO.write into a real StringIO and parsed back with GenomicAnnotation.dump_gtf; ')


@cond('C11', bounds=FILE_B + 'CDS from inside exon 1 to inside exon 2 (both UTRs present), frame 0..2, coding flag symbolic',
      codes=CODES_F, tokens=True, encodes=FILE_ENC, timeout=400)
def c11_gtf_file_roundtrip_span(gs: int, ge: int, plus: bool, a0: int, b0: int, a1: int, b1: int, cs: int,
                                ce: int, frame: int, coding: bool) -> int:
    """
    pre: 0 <= gs and ge < 59000
    pre: 0 <= frame <= 2
    pre: a0 < cs < b0 and a1 < ce < b1
    post: _ >= 0
    """
    return _file_roundtrip(gs, ge, 1 if plus else -1, [(a0, b0), (a1, b1)], cs, ce, frame, coding, False)


@cond('C11', bounds=FILE_B + 'CDS inside exon 1 only, starting at the exon start (no UTR on that side), with a Sec codon',
      codes=CODES_F, tokens=True, encodes=FILE_ENC, timeout=400)
def c11_gtf_file_roundtrip_sec(gs: int, ge: int, plus: bool, a0: int, b0: int, a1: int, b1: int,
                               ce: int, frame: int) -> int:
    """
    pre: 0 <= gs and ge < 59000
    pre: 0 <= frame <= 2
    pre: a0 + 3 <= ce < b0
    post: _ >= 0
    """
    return _file_roundtrip(gs, ge, 1 if plus else -1, [(a0, b0), (a1, b1)], a0, ce, frame, True, True)


@cond('C11', bounds=FILE_B + 'CDS = both exons entirely (no UTR)', codes=CODES_F, tokens=True, encodes=FILE_ENC,
      timeout=400)
def c11_gtf_file_roundtrip_full(gs: int, ge: int, plus: bool, a0: int, b0: int, a1: int, b1: int,
                                frame: int, coding: bool) -> int:
    """
    pre: 0 <= gs and ge < 59000
    pre: 0 <= frame <= 2
    post: _ >= 0
    """
    return _file_roundtrip(gs, ge, 1 if plus else -1, [(a0, b0), (a1, b1)], a0, b1, frame, coding, False)


@cond('C11', bounds='annotation of 2 genes on opposite strands: G1 with transcripts T1 (2 exons) and T2 (1 exon), G2 with T3 '
      '(1 exon); all coordinates symbolic < 59000 (genes may overlap); written with GtfIO.write, parsed back with dump_gtf',
      codes=CODES_F, tokens=True, encodes=FILE_ENC, timeout=400)
def c11_gtf_file_roundtrip_multi(gs: int, ge: int, plus: bool, a0: int, b0: int, a1: int, b1: int, c0: int,
                                 c1: int, hs: int, he: int, d0: int, d1: int) -> int:
    """
    pre: 0 <= gs and ge < 59000 and 0 <= hs and he < 59000
    post: _ >= 0
    """
    import io
    from moPepGen import gtf
    from mpgverif.harness.annobuild import anno_multi, exons_valid, gene_model, tx_model
    strand = 1 if plus else -1
    ex = {'T1': [(a0, b0), (a1, b1)], 'T2': [(c0, c1)], 'T3': [(d0, d1)]}
    if not exons_valid(gs, ge, ex['T1']) or not exons_valid(gs, ge, ex['T2']) or not exons_valid(hs, he, ex['T3']):
        return SKIP
    anno = anno_multi(gs, ge, strand, [ex['T1'], ex['T2']])
    anno.genes['G2'] = gene_model('G2', 'chr1', hs, he, -strand, ['T3'])
    anno.transcripts['T3'] = tx_model('T3', 'G2', 'chr1', -strand, ex['T3'])
    handle = io.StringIO()
    GtfIO.write(handle, anno)
    handle.seek(0)
    back = gtf.GenomicAnnotation()
    back.dump_gtf(handle, source='GENCODE')
    if set(back.genes) != {'G1', 'G2'} or set(back.transcripts) != {'T1', 'T2', 'T3'}:
        return -1
    for gid, span, txs, st in (('G1', (gs, ge), ['T1', 'T2'], strand), ('G2', (hs, he), ['T3'], -strand)):
        g = back.genes[gid]
        if (g.location.start, g.location.end, g.location.strand) != span + (st,) or g.transcripts != txs:
            return -2
    for tid, exons in ex.items():
        t = back.transcripts[tid]
        st = -strand if tid == 'T3' else strand
        if [(f.location.start, f.location.end, f.location.strand) for f in t.exon] != [(s, e, st) for s, e in exons]:
            return -4
        if (t.transcript.location.start, t.transcript.location.end) != (exons[0][0], exons[-1][1]):
            return -3
        if t.gene_id != ('G2' if tid == 'T3' else 'G1') or t.cds or t.utr or t.selenocysteine:
            return -8
    return OK


# --------------------------------------------------------------------------
# on-disk annotation == fully parsed annotation, through the real pointer load (binary handle stand-in)
# --------------------------------------------------------------------------
import io as _io


class _BLine:
    def __init__(self, text, n):
        self.text, self.n = text, n

    def __len__(self):
        return self.n

    def decode(self, enc):
        return self.text


class _Buf:
    def __init__(self, texts):
        self.texts = texts

    def decode(self, enc):
        return ''.join(self.texts)


class _BinFile(_io.IOBase):
    """binary GTF file: line i has text texts[i] (ending in a newline) and occupies lens[i] bytes"""

    def __init__(self, texts, lens):
        super().__init__()
        self.texts, self.lens = texts, lens
        self.off = [0]
        for n in lens:
            self.off.append(self.off[-1] + n)
        self.pos = 0
        self.reads = 0

    def __iter__(self):
        for t, n in zip(self.texts, self.lens):
            self.pos += n
            yield _BLine(t, n)

    def tell(self):
        return self.pos

    def seek(self, offset, whence=0):
        self.pos = offset if whence == 0 else self.pos + offset
        return self.pos

    def read(self, n=-1):
        self.reads += 1
        if self.pos not in self.off or self.pos + n not in self.off:
            raise ValueError('byte range does not start and end at line boundaries')
        i, j = self.off.index(self.pos), self.off.index(self.pos + n)
        self.pos += n
        return _Buf(self.texts[i:j])

    def close(self):
        pass


def _ondisk(gs, ge, plus, a0, b0, a1, b1, c0, c1, hs, he, d0, d1, order, again):
    import io
    from moPepGen import gtf
    from moPepGen.gtf import GTFPointer as gpm
    from moPepGen.gtf.GenomicAnnotationOnDisk import GenomicAnnotationOnDisk
    from mpgverif.harness.annobuild import anno_multi, exons_valid, gene_model, tx_model
    strand = 1 if plus else -1
    ex = {'T1': [(a0, b0), (a1, b1)], 'T2': [(c0, c1)], 'T3': [(d0, d1)]}
    if not exons_valid(gs, ge, ex['T1']) or not exons_valid(gs, ge, ex['T2']) or not exons_valid(hs, he, ex['T3']):
        return SKIP
    anno = anno_multi(gs, ge, strand, [ex['T1'], ex['T2']])
    anno.genes['G2'] = gene_model('G2', 'chr1', hs, he, -strand, ['T3'])
    anno.transcripts['T3'] = tx_model('T3', 'G2', 'chr1', -strand, ex['T3'])
    handle = io.StringIO()
    GtfIO.write(handle, anno)
    texts = [t + '\n' for t in handle.getvalue().split('\n') if t]
    lens = [7, 11, 13, 17, 19, 23, 29, 31, 37, 41, 43, 47, 53][:len(texts)]
    if len(lens) != len(texts):
        return -10
    full = gtf.GenomicAnnotation()
    full.dump_gtf(io.StringIO(''.join(texts)), source='GENCODE')
    binf = _BinFile(texts, lens)
    od = GenomicAnnotationOnDisk()
    keys = [['T1', 'T2', 'T3'], ['T1', 'T3', 'T2'], ['T2', 'T1', 'T3'], ['T2', 'T3', 'T1'], ['T3', 'T1', 'T2'],
            ['T3', 'T2', 'T1']][concretize(order, 0, 5)]
    keys = keys + [keys[concretize(again, 0, 2)]]

    def ivs(lst):
        return [(f.location.start, f.location.end, f.location.strand) for f in lst]

    with patched((gpm, 'TX_DICT_CACHE_SIZE', 1), (gpm, 'GENE_DICT_CACHE_SIZE', 1)):
        od.generate_index(binf, source='GENCODE')
        if set(od.transcripts.keys()) != {'T1', 'T2', 'T3'} or set(od.genes.keys()) != {'G1', 'G2'}:
            return -1
        for k in keys:
            m, want = od.transcripts[k], full.transcripts[k]
            if ivs(m.exon) != ivs(want.exon) or ivs(m.cds) != ivs(want.cds) or ivs(m.utr) != ivs(want.utr):
                return -2          # on-disk transcript model differs from the parsed one
            if (m.transcript.location.start, m.transcript.location.end, m.transcript.location.strand) != \
                    (want.transcript.location.start, want.transcript.location.end, want.transcript.location.strand):
                return -2
            if m.transcript_id != k or m.gene_id != want.gene_id:
                return -3
            g, gw = od.genes[m.gene_id], full.genes[m.gene_id]
            if (g.location.start, g.location.end, g.location.strand) != (gw.location.start, gw.location.end,
                                                                        gw.location.strand):
                return -4
            if sorted(g.transcripts) != sorted(gw.transcripts):
                return -5
    return OK


@cond('C11', bounds='on-disk annotation over a binary file stand-in (concrete distinct line byte lengths): 2 genes on opposite '
      'strands, 3 transcripts (2 + 1 + 1 exons), all coordinates symbolic < 59000; every access order of the three transcripts '
      'plus a repeated access of the first, cache size 1; compared with the fully parsed annotation of the same text', tokens=True,
      encodes=['moPepGen.gtf.GenomicAnnotationOnDisk.GenomicAnnotationOnDisk.generate_index', 'moPepGen.gtf.GTFPointer.'
               'iterate_pointer / TranscriptPointer.load / GenePointer.load / TranscriptPointerDict.__getitem__ / '
               'GenePointerDict.__getitem__', 'moPepGen.gtf.GtfIO.write / line_to_seq_feature',
               'moPepGen.gtf.GenomicAnnotation.dump_gtf'],
      stubs=['binary file -> line list with byte lengths (tell / seek / read at line boundaries only)',
             'TX_DICT_CACHE_SIZE, GENE_DICT_CACHE_SIZE -> 1'],
      codes={-1: 'set of indexed genes / transcripts wrong', -2: 'on-disk transcript model differs from the fully parsed one',
             -3: 'ids of the loaded model wrong', -4: 'on-disk gene model differs from the fully parsed one',
             -5: "gene's transcript list differs", -10: 'unexpected number of GTF lines'}, timeout=600)
def c11_ondisk_models(gs: int, ge: int, plus: bool, a0: int, b0: int, a1: int, b1: int, c0: int, c1: int, hs: int,
                      he: int, d0: int, d1: int, order: int) -> int:
    """
    pre: 0 <= gs and ge < 59000 and 0 <= hs and he < 59000
    pre: 0 <= order <= 5
    post: _ >= 0
    """
    return _ondisk(gs, ge, plus, a0, b0, a1, b1, c0, c1, hs, he, d0, d1, order, 0)


def _two_annotations(gs, ge, plus, a0, b0, a1, b1, delta):
    """two on-disk annotations alive in the same process with the SAME gene / transcript ids and different coordinates
    (e.g. two releases): every lookup must return the model of its own file"""
    import io
    from moPepGen import gtf
    from moPepGen.gtf.GenomicAnnotationOnDisk import GenomicAnnotationOnDisk
    from mpgverif.harness.annobuild import anno_one_gene, exons_valid
    strand = 1 if plus else -1
    if not exons_valid(gs, ge, [(a0, b0), (a1, b1)]) or delta < 1 or ge + delta >= 59000:
        return SKIP
    sides = []
    for d in (0, delta):
        anno = anno_one_gene(gs + d, ge + d, strand, [(a0 + d, b0 + d), (a1 + d, b1 + d)])
        h = io.StringIO()
        GtfIO.write(h, anno)
        texts = [t + '\n' for t in h.getvalue().split('\n') if t]
        od = GenomicAnnotationOnDisk()
        od.generate_index(_BinFile(texts, [7, 11, 13, 17, 19, 23][:len(texts)]), source='GENCODE')
        sides.append((od, d))
    for od, d in (sides[0], sides[1], sides[0], sides[1]):
        t = od.transcripts['T1']
        if [(f.location.start, f.location.end) for f in t.exon] != [(a0 + d, b0 + d), (a1 + d, b1 + d)]:
            return -2
        g = od.genes['G1']
        if (g.location.start, g.location.end, g.location.strand) != (gs + d, ge + d, strand):
            return -4
    return OK


@cond('C11', bounds='two on-disk annotations in one process with the same ids, the second shifted by a symbolic offset >= 1 '
      '(1 gene, 1 transcript of 2 exons, coordinates symbolic < 59000); alternating lookups', tokens=True,
      encodes=['moPepGen.gtf.GenomicAnnotationOnDisk.GenomicAnnotationOnDisk.generate_index', 'moPepGen.gtf.GTFPointer.'
               'TranscriptPointerDict.__getitem__ / GenePointerDict.__getitem__ / TranscriptPointer.load / GenePointer.load'],
      stubs=['binary file -> line list with byte lengths'],
      codes={-2: 'a transcript lookup returned the model of the other annotation (or a wrong model)',
             -4: 'a gene lookup returned the model of the other annotation (or a wrong model)'}, timeout=400)
def c11_ondisk_two_annotations(gs: int, ge: int, plus: bool, a0: int, b0: int, a1: int, b1: int, delta: int) -> int:
    """
    pre: 0 <= gs and ge < 59000
    post: _ >= 0
    """
    return _two_annotations(gs, ge, plus, a0, b0, a1, b1, delta)


# --------------------------------------------------------------------------
# a lookup of an id that is NOT in the annotation (what the fusion parsers do for unknown genes) must leave the
# pointer cache in a valid state: it is one of the "any order and number of accesses"
# --------------------------------------------------------------------------
def _cache_missing_key(kind, state):
    n = len(state)
    for i in range(n):
        if not 0 <= state[i] <= 4:
            return SKIP
        for j in range(i):
            if state[i] == state[j]:
                return SKIP

    def fake_load(self):
        return _Model(self.key)

    if kind == 0:
        d = GenePointerDict()
        cls = GenePointer
        for key in KEYS:
            d[key] = GenePointer(None, key, 0, 1, 'S')
    else:
        d = TranscriptPointerDict()
        cls = TranscriptPointer
        for key in KEYS:
            d[key] = TranscriptPointer(None, key, 0, 1, 'S', is_protein_coding=False)
    d._cache = {KEYS[i]: _Model(KEYS[i]) for i in state}
    d._cached_keys = deque(KEYS[i] for i in state)
    with patched((cls, 'load', fake_load), (gp, 'GENE_DICT_CACHE_SIZE', 3), (gp, 'TX_DICT_CACHE_SIZE', 3)):
        try:
            d['UNKNOWN']
            return -1              # an id that is not annotated returned a model
        except KeyError:
            pass
    # the state after the failed lookup must again be a valid state of c11_pointer_cache_step (whose inductive step then
    # covers every later access): distinct ANNOTATED keys, at most 3, queue and dictionary in agreement
    keys_after = list(d._cached_keys)
    if len(keys_after) > 3 or len(set(keys_after)) != len(keys_after):
        return -2
    if set(keys_after) != set(d._cache):
        return -2                  # e.g. the unknown id stays queued: its later eviction raises KeyError on a VALID lookup
    for key in keys_after:
        if key not in KEYS or d._cache[key].key != key:
            return -2
    return OK


@cond('C11', bounds='from ANY valid cache state (<= 3 of 5 keys cached, cache size patched to 3): one lookup of an id that is '
      'not annotated must raise KeyError and leave a valid cache state (inductive step; later accesses are covered by '
      'c11_pointer_cache_step); gene and transcript dictionaries',
      encodes=ENC_C, stubs=['GenePointer.load / TranscriptPointer.load -> per-key token',
                            'GENE_DICT_CACHE_SIZE, TX_DICT_CACHE_SIZE -> 3'],
      codes={-1: 'an id that is not annotated returned a model', -2: 'a failed lookup left an invalid cache state (the '
             'unknown id stays queued without a cached model: when it is evicted, a later lookup of an ANNOTATED id raises '
             'KeyError)'}, tokens=True, timeout=300)
def c11_pointer_cache_missing_key(kind: int, state: List[int]) -> int:
    """
    pre: 0 <= kind <= 1
    pre: len(state) <= 3
    post: _ >= 0
    """
    return _cache_missing_key(kind, state)
