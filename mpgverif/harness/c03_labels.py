"""C03, the steps that produce a header entry (the end-to-end statement is out of reach, see DESIGN.md):

* stage 1 - every root-to-leaf path of the transcript variant graph is annotated with exactly the variants
  whose application spells it (c03_path_annotation_*): headers are assembled from these annotations;
* MiscleavedNodes.join_miscleaved_peptides names, for a series of graph nodes, exactly the variants that the
  peptide depends on: non-silent variants of its nodes (a variant that only alters the cleavage site upstream of
  a later node is not one), indels between its nodes, cleavage-gain variants downstream of its last node, and the
  start-gain / cleavage-gain variants of its ORF and the caller's additional variants (c03_join_names_exactly);
* create_variant_peptide_id writes those and only those IDs after the right backbone, for transcript, fusion and
  circRNA backbones, and parse_variant_peptide_id recovers them (c03_label_backbone);
* get_peptide_sequences gives every header entry string a distinct trailing index (c03_header_index_unique).

Graph nodes, node variants and ORFs are duck-typed stand-ins exposing exactly the attributes read."""
import sys

from Bio import SeqUtils
from Bio.Seq import Seq

from moPepGen.SeqFeature import FeatureLocation
from moPepGen.aa import VariantPeptideIdentifier as vpi
from moPepGen.params import CleavageParams
from moPepGen.seqvar.VariantRecord import VariantRecord
from moPepGen.svgraph.VariantPeptideDict import MiscleavedNodes, MiscleavedNodeSeries, VariantPeptideDict
from mpgverif.harness import c01_stage1
from mpgverif.harness.kernel_vpd import _label_index
from mpgverif.hlib import OK, SKIP, concretize, cond, patched
from collections import deque

USE_SHIM = True
USE_TOKENS = False


def _snv(k, seqname='T1', attrs=None):
    a = {'GENE_ID': 'G1'}
    a.update(attrs or {})
    return VariantRecord(location=FeatureLocation(seqname=seqname, start=10 + k, end=11 + k), ref='A', alt='T',
                         _type='SNV', _id=f'SNV-{10 + k}-A-T', attrs=a)


class _NodeVar:
    def __init__(self, variant, silent, upstream_cleavage_altering):
        self.variant = variant
        self.is_silent = silent
        self.upstream_cleavage_altering = upstream_cleavage_altering


class _Holder:
    def __init__(self, seq):
        self.seq = seq
        self.locations = []


class _Node:
    def __init__(self, text, variants, down_gain):
        self.seq = _Holder(Seq(text))
        self.variants = variants
        self.selenocysteines = []
        self.upstream_indel_map = {}
        self._down = down_gain

    def get_cleavage_gain_from_downstream(self):
        return list(self._down)

    def __hash__(self):
        return id(self)

    def __eq__(self, other):
        return self is other


class _Orf:
    def __init__(self, start_gain, cleavage_gain):
        self.orf = (0, 30)
        self.start_gain = set(start_gain)
        self.cleavage_gain = set(cleavage_gain)


def _ids(label):
    """variant ids named by a transcript-backbone header entry (no index, no ORF id)"""
    parts = label.split('|')
    return parts[0], parts[1:]


def _join(p0, s0, p1, s1, u1, pi, p_down, p_start, p_cgain, p_add, p_series, check_variants):
    """node 0 carries V0 (present p0, silent s0); node 1 carries V1 (present p1, silent s1, only altering the
    cleavage site upstream of it u1); V2 is an indel between them (pi); V3 a downstream cleavage gain, V4 an ORF
    start gain, V5 an ORF cleavage gain, V6 the caller's additional variant, V7 the series' additional variant."""
    v = [_snv(k) for k in range(8)]
    n0 = _Node('AAAAK', [_NodeVar(v[0], s0, False)] if p0 else [], [])
    n1 = _Node('CCCCK', [_NodeVar(v[1], s1, u1)] if p1 else [], [v[3]] if p_down else [])
    if pi:
        n1.upstream_indel_map[n0] = [v[2]]
    params = CleavageParams(enzyme='trypsin', miscleavage=2, min_length=3, max_length=30, min_mw=0.)
    series = MiscleavedNodeSeries([n0, n1], {v[7]} if p_series else set())
    orf = _Orf([v[4]] if p_start else [], [v[5]] if p_cgain else [])
    mn = MiscleavedNodes(data=deque([series]), cleavage_params=params, orfs=[orf], tx_id='T1', gene_id=None,
                         leading_node=n0, subgraphs=None, is_circ_rna=False)
    with patched((SeqUtils, 'molecular_weight', lambda s, t='protein': 1000.0),
                 (MiscleavedNodes, 'create_peptide_segments', lambda self, nodes: [])):
        got = list(mn.join_miscleaved_peptides(pool=set(), check_variants=check_variants,
                                                additional_variants=[v[6]] if p_add else [], denylist=set()))
    want = []
    if check_variants:
        if p0 and not s0:
            want.append(0)
        if p1 and not s1 and not u1:
            want.append(1)
        if pi:
            want.append(2)
    if p_down:
        want.append(3)
    if check_variants:
        for flag, k in ((p_start, 4), (p_cgain, 5), (p_add, 6), (p_series, 7)):
            if flag:
                want.append(k)
    if check_variants and not want:
        return OK if not got else -1           # a peptide without any variant was reported as variant peptide
    if len(got) != 1:
        return -2                              # the series was dropped (or reported twice)
    seq, meta = got[0]
    if str(seq) != 'AAAAKCCCCK':
        return -3
    backbone, named = _ids(meta.label)
    if backbone != 'T1':
        return -4
    if len(set(named)) != len(named):
        return -5                              # a variant is named twice
    if set(named) != {v[k].id for k in want}:
        return -6                              # header names a variant the peptide does not depend on / omits one
    if meta.has_variants != bool(want):
        return -7
    return OK


CODES_J = {-1: 'a peptide carrying no variant was reported by the variant caller',
           -2: 'a series of nodes carrying variants was dropped or reported twice', -3: 'joined sequence differs',
           -4: 'backbone of the header entry is not the transcript', -5: 'a variant is named twice in one header entry',
           -6: 'header entry names a variant the peptide does not depend on, or omits one it depends on',
           -7: 'has_variants flag disagrees with the named variants'}


@cond('C03', bounds='series of 2 nodes; 8 variant slots each symbolically present (node variants with symbolic silent / '
      'upstream-cleavage-altering flags, in-between indel, downstream cleavage gain, ORF start gain, ORF cleavage gain, '
      'caller additional, series additional); check_variants symbolic; linear transcript', codes=CODES_J,
      encodes=['moPepGen.svgraph.VariantPeptideDict.MiscleavedNodes.join_miscleaved_peptides / '
               'translational_modification / is_valid_seq', 'moPepGen.aa.VariantPeptideIdentifier.'
               'create_variant_peptide_id / BaseVariantPeptideIdentifier.__str__'],
      stubs=['graph nodes, node variants, ORF -> duck-typed stand-ins', 'Bio.SeqUtils.molecular_weight -> constant',
             'MiscleavedNodes.create_peptide_segments -> []'], timeout=400)
def c03_join_names_exactly(p0: bool, s0: bool, p1: bool, s1: bool, u1: bool, pi: bool, p_down: bool, p_start: bool,
                           p_cgain: bool, p_add: bool, p_series: bool, check_variants: bool) -> int:
    """
    post: _ >= 0
    """
    return _join(p0, s0, p1, s1, u1, pi, p_down, p_start, p_cgain, p_add, p_series, check_variants)


# ---------------------------------------------------------------- backbone + ids in the entry text
def _backbone(kind, m0, m1, m2, m3, with_orf, index):
    """kind 0 transcript, 1 fusion, 2 circRNA.  Pool of 4 small variants: V0, V1 on the (donor) transcript, V2 on the
    donor GENE, V3 on the acceptor transcript (fusion) / a merged MNV of two ids (otherwise)."""
    donor, acceptor = 'T1', 'T2'
    v0, v1 = _snv(0), _snv(1)
    v2 = _snv(2, seqname='G1', attrs={'TRANSCRIPT_ID': 'T1'} if kind != 1 else None)
    if kind == 1:
        v3 = _snv(3, seqname=acceptor, attrs={'GENE_ID': 'G2'})
    else:
        v3 = VariantRecord(location=FeatureLocation(seqname='T1', start=20, end=22), ref='AA', alt='TT', _type='MNV',
                           _id='MNV-20-AA-TT', attrs={'GENE_ID': 'G1', 'MERGED_MNV': True,
                                                      'INDIVIDUAL_VARIANT_IDS': ['SNV-20-A-T', 'SNV-21-A-T']})
    chosen = [x for x, m in ((v0, m0), (v1, m1), (v2, m2), (v3, m3)) if m]
    variants = list(chosen)
    if kind == 1:
        fus = VariantRecord(location=FeatureLocation(seqname=donor, start=30, end=31), ref='A', alt='<FUSION>',
                            _type='Fusion', _id='FUSION-T1:30-T2:40',
                            attrs={'GENE_ID': 'G1', 'ACCEPTER_TRANSCRIPT_ID': acceptor, 'ACCEPTER_GENE_ID': 'G2',
                                   'ACCEPTER_POSITION': 40})
        variants.insert(1 if variants else 0, fus)
        backbone = fus.id
    elif kind == 2:
        circ = VariantRecord(location=FeatureLocation(seqname='G1', start=0, end=1), ref='A', alt='<circRNA>',
                             _type='circRNA', _id='CIRC-T1-5:25', attrs={'GENE_ID': 'G1'})
        variants.append(circ)
        backbone = circ.id
    else:
        backbone = 'T1'
    orf_id = 'ORF2' if with_orf else None
    if kind == 0 and not chosen:
        return SKIP                # callVariant never writes a transcript-backbone entry without variants
    label = vpi.create_variant_peptide_id('T1', variants, orf_id=orf_id, index=index, gene_id=None)
    parts = label.split('|')
    if parts[0] != backbone:
        return -1
    if parts[-1] != str(index):
        return -2
    body = parts[1:-1]
    if with_orf:
        if 'ORF2' not in body:
            return -3
        body.remove('ORF2')
    want = []
    for x in chosen:
        ids = x.attrs['INDIVIDUAL_VARIANT_IDS'] if x.is_merged_mnv() else [x.id]
        for i in ids:
            if kind == 1:
                want.append(('2-' if x is v3 else '1-') + i)
            else:
                want.append(i)
    if sorted(body) != sorted(want):
        return -4                  # ids in the entry differ from the variants handed in (side prefix for fusions)
    # parse back
    parsed = vpi.parse_variant_peptide_id(label, set())
    if len(parsed) != 1 or str(parsed[0]) != label:
        return -5
    p = parsed[0]
    if kind == 1:
        if not isinstance(p, vpi.FusionVariantPeptideIdentifier) or p.fusion_id != backbone:
            return -6
        if sorted(p.first_variants) != sorted(i[2:] for i in want if i.startswith('1-')) or \
                sorted(p.second_variants) != sorted(i[2:] for i in want if i.startswith('2-')):
            return -7
    elif kind == 2:
        if not isinstance(p, vpi.CircRNAVariantPeptideIdentifier) or p.circ_rna_id != backbone:
            return -6
        if sorted(p.variant_ids) != sorted(want):
            return -7
    else:
        if not isinstance(p, vpi.BaseVariantPeptideIdentifier) or p.transcript_id != 'T1':
            return -6
        elif sorted(p.variant_ids) != sorted(want):
            return -7
    return OK


CODES_B = {-1: 'entry does not start with the backbone (transcript / fusion / circRNA id)',
           -2: 'entry does not end with its index', -3: 'ORF id missing',
           -4: 'variant ids in the entry differ from the variants handed in (with donor/acceptor side for fusions)',
           -5: 'parsing the entry and printing it changes the text', -6: 'parsed identifier has the wrong kind / backbone',
           -7: 'parsed variant ids differ'}


@cond('C03', bounds='backbone kind in {transcript, fusion, circRNA} x every subset of 4 variants (two on the transcript, one '
      'recorded on the gene, one on the acceptor transcript or a merged MNV of two ids) x ORF id present or not x symbolic '
      'index >= 1', codes=CODES_B, encodes=['moPepGen.aa.VariantPeptideIdentifier.create_variant_peptide_id / '
      'parse_variant_peptide_id / Base-, Fusion-, CircRNAVariantPeptideIdentifier.__str__'], timeout=400)
def c03_label_backbone(kind: int, m0: bool, m1: bool, m2: bool, m3: bool, with_orf: bool, index: int) -> int:
    """
    pre: 0 <= kind <= 2
    pre: 1 <= index <= 9
    post: _ >= 0
    """
    return _backbone(concretize(kind, 0, 2), m0, m1, m2, m3, with_orf, concretize(index, 1, 9))


# ---------------------------------------------------------------- index uniqueness
@cond('C03', bounds='3 metadata entries over 1-2 sequences, labels from a 2-label alphabet, has_variants flags, ORF starts '
      'in 0..1 (equal or different ORFs), with / without ORF ids', encodes=['moPepGen.svgraph.VariantPeptideDict.'
      'VariantPeptideDict.get_peptide_sequences'],
      codes={-1: 'a header entry string (including its trailing index) occurs twice',
             -2: 'the indices of one label are not 1..n'}, timeout=400)
def c03_header_index_unique(la: int, lb: int, lc: int, hv_a: bool, hv_b: bool, hv_c: bool, oa: int,
                            ob: int, oc: int, same_seq: bool, use_orf_ids: bool) -> int:
    """
    pre: 0 <= la <= 1 and 0 <= lb <= 1 and 0 <= lc <= 1
    pre: 0 <= oa <= 1 and 0 <= ob <= 1 and 0 <= oc <= 1
    post: _ >= 0
    """
    return _label_index(la, lb, lc, hv_a, hv_b, hv_c, oa, ob, oc, same_seq, use_orf_ids)


# ---------------------------------------------------------------- stage 1: path annotation
CODES_P = {-1: 'a haplotype is not spelled by a path annotated with exactly its variants',
           -2: 'a path is annotated with a variant that was not supplied',
           -3: 'a path is annotated with two overlapping variants',
           -4: 'a path spells a sequence that applying exactly its annotated variants does not give'}


@cond('C03', bounds='transcript of 10 nt, 1 variant: SNV / insertion of 1-2 nt / deletion of 1-2 nt at any position 3..9; '
      'both directions (every path <-> its annotation)', codes=CODES_P, encodes=c01_stage1.ENC, timeout=400)
def c03_path_annotation_one(kind: int, pos: int, ln: int) -> int:
    """
    pre: 0 <= kind <= 2
    pre: 3 <= pos <= 9
    pre: 1 <= ln <= 2
    post: _ >= 0
    """
    spec = (concretize(kind, 0, 2), concretize(pos, 3, 9), concretize(ln, 1, 2))
    r = c01_stage1._check(10, [spec], 1)
    if r != OK:
        return r
    return c01_stage1._check(10, [spec], 0)


@cond('C03', bounds='transcript of 10 nt, 2 SNVs at any two positions in 3..7; both directions', codes=CODES_P,
      encodes=c01_stage1.ENC, timeout=400)
def c03_path_annotation_two_snvs(p1: int, p2: int) -> int:
    """
    pre: 3 <= p1 <= 7 and 3 <= p2 <= 7
    post: _ >= 0
    """
    specs = [(0, concretize(p1, 3, 7), 1), (0, concretize(p2, 3, 7), 1)]
    r = c01_stage1._check(10, specs, 1)
    if r != OK:
        return r
    return c01_stage1._check(10, specs, 0)


# ---------------------------------------------------------------- W>F entries name exactly the substituted positions
from typing import List as _List  # noqa: E402

from mpgverif.harness.kernel_vpd import CODES_C as _CODES_W2F, _w2f  # noqa: E402


@cond('C03', bounds='peptide of length <= 4 over {A, F, W} (every string), UNBOUNDED symbolic length limits: every W>F form is '
      'written with a header entry naming exactly the substituted tryptophans',
      encodes=['moPepGen.svgraph.VariantPeptideDict.VariantPeptideDict.translational_modification / '
               'find_codon_reassignments', 'moPepGen.seqvar.VariantRecord.create_variant_w2f'],
      stubs=['Bio.SeqUtils.molecular_weight -> constant'], codes=_CODES_W2F, timeout=600)
def c03_w2f_labels(idx: _List[int], lo: int, hi: int) -> int:
    """
    pre: 1 <= len(idx) <= 4
    pre: all(0 <= i <= 2 for i in idx)
    post: _ >= 0
    """
    p = [[65, 70, 87][concretize(i, 0, 2)] for i in idx]
    return _w2f(p, lo, hi, 0)
