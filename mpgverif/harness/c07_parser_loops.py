"""C07-3 (and the 'skipped and counted' clauses of C14/C15): record loops of the parser commands
parseSTARFusion, parseFusionCatcher, parseArriba and parseVEP with fake records whose conversion
succeeds / names an unknown gene / fails, for every pattern over 3 records and --skip-failed on/off.

Stubs: <Parser>.parse -> fake records, common.load_references / validate_file_format /
generate_metadata / print_start_message, seqvar.io.write -> recorder, get_logger, open/gzip.open."""
import argparse
import sys

import moPepGen.cli.parse_arriba  # noqa: F401
import moPepGen.cli.parse_fusion_catcher  # noqa: F401
import moPepGen.cli.parse_star_fusion  # noqa: F401
import moPepGen.cli.parse_vep  # noqa: F401
from moPepGen import err
from moPepGen.err import (TranscriptionStartSiteMutationError,
                          TranscriptionStopSiteMutationError)
from mpgverif.hlib import OK, SKIP, NullLogger, concretize, cond, patched

USE_SHIM = False
USE_TOKENS = False

MODS = {0: sys.modules['moPepGen.cli.parse_star_fusion'], 1: sys.modules['moPepGen.cli.parse_fusion_catcher'],
        2: sys.modules['moPepGen.cli.parse_arriba'], 3: sys.modules['moPepGen.cli.parse_vep']}
ENTRY = {0: 'parse_star_fusion', 1: 'parse_fusion_catcher', 2: 'parse_arriba', 3: 'parse_vep'}


class _Loc:
    def __init__(self, seqname):
        self.seqname = seqname


class _Out:
    """a converted record; sortable (parseVEP sorts per transcript)"""

    def __init__(self, uid, gene):
        self.uid = uid
        self.location = _Loc(gene)

    def __lt__(self, other):
        return self.uid < other.uid


class _Rec:
    def __init__(self, uid, evidence, outcome, gene):
        self.uid, self.evidence, self.outcome, self.gene = uid, evidence, outcome, gene
        # evidence fields of the three fusion tools
        self.est_j = 5 if evidence else 0
        self.counts_of_common_mapping_reads = 0 if evidence else 9
        self.spanning_unique_reads = 5
        self.gene_id1 = 'G0'
        self.gene_id2 = 'G1'
        self.feature = ['T0', 'T1'][gene]          # VEP transcript

    def is_valid(self, *a):
        return self.evidence

    def transcript_on_antisense_strand(self, anno):
        return False

    def _convert(self):
        if self.outcome == 1:
            raise err.GeneNotFoundError('GX')
        if self.outcome == 2:
            raise RuntimeError('boom')
        if self.outcome == 3:
            raise TranscriptionStopSiteMutationError('T')
        if self.outcome == 4:
            raise TranscriptionStartSiteMutationError('T')
        return _Out(self.uid, ['G0', 'G1'][self.gene])

    def convert_to_variant_records(self, anno, genome):
        return [self._convert()]

    def convert_to_variant_record(self, anno, genome):
        return self._convert()


class _Anno:
    genes = {'G0': 1, 'G1': 1}

    def get_genes_rank(self):
        return {'G0': 0, 'G1': 1}

    def get_transcript_rank(self):
        return {'T0': 0, 'T1': 1}


def _run(tool, ev, outcome, gene, skip_failed, thr=None, fields=None):
    mod = MODS[tool]
    n = len(ev)
    recs = [_Rec(i, ev[i] or tool == 3, outcome[i], gene[i]) for i in range(n)]
    for r in recs:
        r.__dict__.update(fields or {})
        if fields and fields.get('real_arriba_is_valid'):
            from moPepGen.parser.ArribaParser import ArribaRecord
            r.is_valid = (lambda rec: lambda m1, m2, c: ArribaRecord.is_valid(rec, m1, m2, c))(r)
    written = []
    holder = {}
    real_tally = mod.TallyTable

    class Tally(real_tally):
        def __init__(self, logger):
            super().__init__(logger)
            holder['t'] = self

    class _H:
        def __enter__(self):
            return self

        def __exit__(self, *a):
            return False

    class _P:
        suffix = '.tsv'

    args = argparse.Namespace(input_path=[_P()] if tool == 3 else 'in.tsv', output_path='out.gvf',
                              skip_failed=skip_failed, min_est_j=1, max_common_mapping=0,
                              min_spanning_unique=1, min_split_read1=1, min_split_read2=1,
                              min_confidence='medium', command='x', source='s', index_dir=None)
    args.__dict__.update(thr or {})
    pmod = {0: 'STARFusionParser', 1: 'FusionCatcherParser', 2: 'ArribaParser', 3: None}[tool]
    patches = [(mod, 'get_logger', lambda: NullLogger()), (mod, 'TallyTable', Tally),
               (mod.common, 'validate_file_format', lambda *a, **k: None),
               (mod.common, 'print_start_message', lambda a: None),
               (mod.common, 'load_references', lambda *a, **k: ('GENOME', _Anno(), None, None)),
               (mod.common, 'generate_metadata', lambda a: 'META'),
               (mod.seqvar.io, 'write', lambda variants, path, meta: written.extend(v.uid for v in variants)),
               (mod, 'open', lambda *a, **k: _H())]
    if tool == 3:
        patches.append((mod.VEPParser, 'parse', lambda h: iter(recs)))
    else:
        patches.append((getattr(mod.parser, pmod), 'parse', lambda *a, **k: iter(recs)))
    with patched(*patches):
        getattr(mod, ENTRY[tool])(args)
    return written, holder['t']


def _check(tool, ev, outcome, gene, skip_failed):
    n = len(ev)
    if tool == 3:
        ev = [True] * n
    else:
        for o in outcome:
            if o > 2:
                return SKIP        # start/stop-site errors only arise in parseVEP
    first_boom = None
    for i in range(n):
        if ev[i] and outcome[i] == 2:
            first_boom = i
            break
    try:
        written, t = _run(tool, ev, outcome, gene, skip_failed)
    except RuntimeError:
        if skip_failed or first_boom is None:
            return -1              # --skip-failed did not isolate the failing record
        return OK
    if first_boom is not None and not skip_failed:
        return -2                  # a failure was swallowed without --skip-failed
    good = [i for i in range(n) if ev[i] and outcome[i] == 0]
    want = [i for i in good if gene[i] == 0] + [i for i in good if gene[i] == 1]
    if written != want:
        return -3                  # written records differ from the successfully converted ones
    n_ins = len([i for i in range(n) if not ev[i]])
    n_gene = len([i for i in range(n) if ev[i] and outcome[i] == 1])
    n_boom = len([i for i in range(n) if ev[i] and outcome[i] == 2])
    if t.total != n or t.succeed != len(good):
        return -4
    if tool == 3:
        n_stop = len([i for i in range(n) if outcome[i] == 3])
        n_start = len([i for i in range(n) if outcome[i] == 4])
        if n_gene:
            return SKIP            # GeneNotFoundError is a generic failure for parseVEP; not modelled
        if t.failed.stop_site_mutation != n_stop or t.failed.start_site_mutation != n_start \
                or t.failed.total != n_stop + n_start + n_boom:
            return -5
    else:
        if t.skipped.insufficient_evidence != n_ins or t.skipped.invalid_gene_id != n_gene \
                or t.skipped.invalid_position != n_boom or t.skipped.total != n_ins + n_gene + n_boom:
            return -5              # skipped records not counted exactly
    return OK


CODES = {-1: 'with --skip-failed a failing record aborted the command',
         -2: 'without --skip-failed a failing record was swallowed',
         -3: 'written records differ from the successfully converted ones (in gene / transcript order)',
         -4: 'total / succeeded tally wrong', -5: 'skipped / failed records not counted exactly'}
STUBS = ['<Parser>.parse -> fake records', 'common.load_references / validate_file_format / generate_metadata',
         'seqvar.io.write -> recorder', 'open, get_logger']


def _args(e0, e1, e2, o0, o1, o2, g0, g1, g2, hi):
    ev = [e0, e1, e2]
    out = [concretize(o, 0, hi) for o in (o0, o1, o2)]
    gene = [concretize(g, 0, 1) for g in (g0, g1, g2)]
    return ev, out, gene


@cond('C07', bounds='parseSTARFusion: 3 records x (evidence ok, outcome in {converted, unknown gene, failure}, gene in 2), '
      '--skip-failed symbolic', encodes=['moPepGen.cli.parse_star_fusion.parse_star_fusion'], stubs=STUBS,
      codes=CODES, shim=False, timeout=300)
def c07_loop_star_fusion(e0: bool, e1: bool, e2: bool, o0: int, o1: int, o2: int, g0: int, g1: int,
                         g2: int, skip_failed: bool) -> int:
    """
    pre: 0 <= o0 <= 2 and 0 <= o1 <= 2 and 0 <= o2 <= 2
    pre: 0 <= g0 <= 1 and 0 <= g1 <= 1 and 0 <= g2 <= 1
    post: _ >= 0
    """
    ev, out, gene = _args(e0, e1, e2, o0, o1, o2, g0, g1, g2, 2)
    return _check(0, ev, out, gene, skip_failed)


@cond('C07', bounds='parseFusionCatcher: as parseSTARFusion', encodes=['moPepGen.cli.parse_fusion_catcher.'
      'parse_fusion_catcher'], stubs=STUBS, codes=CODES, shim=False, timeout=300)
def c07_loop_fusion_catcher(e0: bool, e1: bool, e2: bool, o0: int, o1: int, o2: int, g0: int, g1: int,
                            g2: int, skip_failed: bool) -> int:
    """
    pre: 0 <= o0 <= 2 and 0 <= o1 <= 2 and 0 <= o2 <= 2
    pre: 0 <= g0 <= 1 and 0 <= g1 <= 1 and 0 <= g2 <= 1
    post: _ >= 0
    """
    ev, out, gene = _args(e0, e1, e2, o0, o1, o2, g0, g1, g2, 2)
    return _check(1, ev, out, gene, skip_failed)


@cond('C07', bounds='parseArriba: as parseSTARFusion', encodes=['moPepGen.cli.parse_arriba.parse_arriba'],
      stubs=STUBS, codes=CODES, shim=False, timeout=300)
def c07_loop_arriba(e0: bool, e1: bool, e2: bool, o0: int, o1: int, o2: int, g0: int, g1: int,
                    g2: int, skip_failed: bool) -> int:
    """
    pre: 0 <= o0 <= 2 and 0 <= o1 <= 2 and 0 <= o2 <= 2
    pre: 0 <= g0 <= 1 and 0 <= g1 <= 1 and 0 <= g2 <= 1
    post: _ >= 0
    """
    ev, out, gene = _args(e0, e1, e2, o0, o1, o2, g0, g1, g2, 2)
    return _check(2, ev, out, gene, skip_failed)


@cond('C07', bounds='parseVEP: 3 records x outcome in {converted, failure, stop-site, start-site rejection} x transcript in 2, '
      '--skip-failed symbolic', encodes=['moPepGen.cli.parse_vep.parse_vep'], stubs=STUBS, codes=CODES,
      shim=False, timeout=300)
def c07_loop_vep(o0: int, o1: int, o2: int, g0: int, g1: int, g2: int, skip_failed: bool) -> int:
    """
    pre: 0 <= o0 <= 3 and 0 <= o1 <= 3 and 0 <= o2 <= 3
    pre: 0 <= g0 <= 1 and 0 <= g1 <= 1 and 0 <= g2 <= 1
    post: _ >= 0
    """
    m = [0, 2, 3, 4]
    out = [m[concretize(o, 0, 3)] for o in (o0, o1, o2)]
    gene = [concretize(g, 0, 1) for g in (g0, g1, g2)]
    return _check(3, [True] * 3, out, gene, skip_failed)



# --- C15: "records failing the evidence thresholds ... are skipped and counted" (STAR-Fusion, FusionCatcher loops)
def _thresholds(tool, est_j, common, spanning, min_est_j, max_common, min_spanning):
    fields = {'est_j': est_j, 'counts_of_common_mapping_reads': common, 'spanning_unique_reads': spanning}
    thr = {'min_est_j': min_est_j, 'max_common_mapping': max_common, 'min_spanning_unique': min_spanning}
    written, t = _run(tool, [True], [0], [0], False, thr, fields)
    if tool == 0:
        ok = est_j >= min_est_j
    else:
        ok = common <= max_common and spanning >= min_spanning
    if ok:
        if written != [0] or t.succeed != 1 or t.skipped.total != 0:
            return -1              # a record meeting the thresholds was not converted
    else:
        if written:
            return -2              # a record failing an evidence threshold was converted and written
        if t.skipped.insufficient_evidence != 1 or t.skipped.total != 1 or t.succeed != 0:
            return -3              # skipped record not counted as insufficient evidence
    if t.total != 1:
        return -3
    return OK


@cond('C15', bounds='parseSTARFusion / parseFusionCatcher command loops, one record: est_J, common-mapping and spanning-'
      'unique counts and all three thresholds UNBOUNDED symbolic integers',
      encodes=['moPepGen.cli.parse_star_fusion.parse_star_fusion', 'moPepGen.cli.parse_fusion_catcher.parse_fusion_catcher'],
      stubs=['parsers\' parse(), reference loading, GVF writing, record conversion (always succeeds)'],
      codes={-1: 'a record meeting the evidence thresholds was not converted',
             -2: 'a record failing an evidence threshold was converted and written',
             -3: 'skipped record not counted (insufficient evidence)'}, timeout=300)
def c15_cli_thresholds(fcatcher: bool, est_j: int, common: int, spanning: int, min_est_j: int, max_common: int,
                       min_spanning: int) -> int:
    """
    post: _ >= 0
    """
    return _thresholds(1 if fcatcher else 0, est_j, common, spanning, min_est_j, max_common, min_spanning)


def _arriba_cli(s1, s2, m1, m2):
    from moPepGen.parser.ArribaParser import ArribaConfidence
    fields = {'split_reads1': s1, 'split_reads2': s2, 'confidence': ArribaConfidence('high'),
              'real_arriba_is_valid': True}
    thr = {'min_split_read1': m1, 'min_split_read2': m2, 'min_confidence': 'medium'}
    written, t = _run(2, [True], [0], [0], False, thr, fields)
    if s1 >= m1 and s2 >= m2:
        if written != [0] or t.succeed != 1 or t.skipped.total != 0:
            return -1
    else:
        if written:
            return -2
        if t.skipped.insufficient_evidence != 1 or t.skipped.total != 1 or t.succeed != 0:
            return -3
    return OK


@cond('C15', bounds='parseArriba command loop, one high-confidence record, minimum confidence medium: split reads of both '
      'sides and both --min-split-read values UNBOUNDED symbolic integers (each option reaches its own side)',
      encodes=['moPepGen.cli.parse_arriba.parse_arriba', 'moPepGen.parser.ArribaParser.ArribaRecord.is_valid'],
      stubs=['parser parse(), reference loading, GVF writing, record conversion (always succeeds), antisense test (False)'],
      codes={-1: 'a record meeting the evidence thresholds was not converted',
             -2: 'a record failing an evidence threshold was converted and written',
             -3: 'skipped record not counted (insufficient evidence)'}, timeout=300)
def c15_arriba_cli_thresholds(s1: int, s2: int, m1: int, m2: int) -> int:
    """
    post: _ >= 0
    """
    return _arriba_cli(s1, s2, m1, m2)
