"""C10-1 (E2): semantics of the cleavage-rule tables for ALL strings up to length N.

Regenerated from the live tables of /repo at every run.  Alphabet: A-Z and '*'.
Queries (negated, z3 Int/LIA over code points):
  (a) pairing   - the i-th re.finditer site of EXPASY_RULES[rule] and the i-th
                  regex.finditer(overlapped=True) range of EXPASY_RULES2[rule] come from
                  the same window (no missing range, no spurious range, same order).  This is
                  exactly when iter_enzymatic_cleave_sites_with_range raises or mis-pairs.
  (c) drift     - site / range predicates of the live tables are equivalent to the frozen
                  second formulation /verif/spec/expasy_spec.json.
Every model is replayed through the real AminoAcidSeqRecord methods / re / regex.
"""
import json
import os
import random
import re
import time

import regex
import z3

from mpgverif import rx
from mpgverif.z3cond import zcond

ROOT = os.path.dirname(os.path.dirname(os.path.dirname(os.path.abspath(__file__))))
SPEC = os.path.join(ROOT, 'spec', 'expasy_spec.json')
ENC = ['moPepGen.aa.expasy_rules.EXPASY_RULES', 'moPepGen.aa.expasy_rules.EXPASY_RULES2',
       'moPepGen.aa.AminoAcidSeqRecord.iter_enzymatic_cleave_sites_with_range',
       'moPepGen.aa.AminoAcidSeqRecord.iter_enzymatic_cleave_sites']


def _live():
    from moPepGen.aa.expasy_rules import EXPASY_RULES, EXPASY_RULES2
    return dict(EXPASY_RULES), dict(EXPASY_RULES2)


def _letters(r1, r2):
    return sorted(set(c for c in r1 + r2 if c.isupper()) | {'S', '*', 'X', 'P'})


def validate_translator(rules, rules2, n_random, seed):
    """translator vs the real engines: returns (#agreements, list of disagreements)"""
    rnd = random.Random(seed)
    agree = 0
    bad = []
    for rule in rules:
        a1 = rx.alternatives(rules[rule])
        a2 = rx.alternatives(rules2[rule]) if rule in rules2 else None
        letters = _letters(rules[rule], rules2.get(rule, ''))
        for _ in range(n_random):
            s = ''.join(rnd.choice(letters) for _ in range(rnd.randint(0, 12)))
            real_sites = [m.end() for m in re.finditer(rules[rule], s)]
            if real_sites != rx.model_sites(a1, s):
                bad.append((rule, s, 'sites'))
            if a2 is not None:
                real_ranges = [(m.start(), m.end()) for m in
                               regex.compile(rules2[rule]).finditer(s, overlapped=True)]
                if real_ranges != rx.model_ranges(a2, s):
                    bad.append((rule, s, 'ranges'))
            agree += 1
    return agree, bad


def pairing_query(a1, a2, N):
    e = rx.Enc(N)
    site, exp = {}, {}
    for i in range(N):
        ms = [e.alt_match(alt, i) for alt in a1]
        site[i + 1] = z3.Or(ms)
        es = z3.IntVal(-1)
        ee = z3.IntVal(-1)
        for alt, m in reversed(list(zip(a1, ms))):
            es = z3.If(m, i - len(alt[0]), es)
            ee = z3.If(m, i + 1 + len(alt[2]), ee)
        exp[i + 1] = (es, ee)
    rng, rend = {}, {}
    for j in range(N):
        ms = [e.alt_match(alt, j) for alt in a2]
        rng[j] = z3.Or(ms)
        en = z3.IntVal(-1)
        for alt, m in reversed(list(zip(a2, ms))):
            en = z3.If(m, j + len(alt[1]), en)
        rend[j] = en
    viol = []
    for i in range(1, N + 1):
        es, ee = exp[i]
        present = z3.Or([z3.And(es == j, rng[j], rend[j] == ee) for j in range(N)])
        viol.append(z3.And(site[i], z3.Not(present)))
    for j in range(N):
        viol.append(z3.And(rng[j], z3.Not(z3.Or([z3.And(site[i], exp[i][0] == j)
                                                  for i in range(1, N + 1)]))))
    for i in range(1, N + 1):
        for k in range(i + 1, N + 1):
            viol.append(z3.And(site[i], site[k], exp[i][0] >= exp[k][0]))
    return e, z3.Or(viol)


def _solve(e, formula, timeout_ms=120000):
    s = z3.Solver()
    s.set('timeout', timeout_ms)
    s.add(e.dom)
    s.add(formula)
    t = time.time()
    r = str(s.check())
    dt = time.time() - t
    w = e.string(s.model()) if r == 'sat' else None
    return r, dt, w


def real_pairing_ok(rule, s):
    """the real function on a concrete string: True iff sites and ranges pair correctly"""
    from Bio.Seq import Seq
    from moPepGen.aa import AminoAcidSeqRecord
    from moPepGen.aa.expasy_rules import EXPASY_RULES
    rec = AminoAcidSeqRecord(Seq(s))
    try:
        pairs = list(rec.iter_enzymatic_cleave_sites_with_range(rule))
    except ValueError:
        return False
    want = [m.end() for m in re.finditer(EXPASY_RULES[rule], s)]
    if [p[0] for p in pairs] != want:
        return False
    for site, (a, b) in pairs:
        if not a < site <= b and not (a <= site <= b):
            return False
        # the range must be the window of the alternative that produced the site
        alts = rx.alternatives(EXPASY_RULES[rule])
        k = rx.match_at(alts, s, site - 1)
        lb, c, la = alts[k]
        if (a, b) != (site - 1 - len(lb), site + len(la)):
            return False
    return True


@zcond('C10', bounds='all 36 rule entries; every string over A-Z and * of length <= 10 (thorough 14)',
       encodes=ENC, timeout=300, timeout_thorough=1500)
def c10_rules_pairing(tier):
    N = 10 if tier == 'quick' else 14
    rules, rules2 = _live()
    seed = int(os.environ.get('VERIF_SEED', '0') or 0)
    agree, bad = validate_translator(rules, rules2, 300 if tier == 'quick' else 3000, seed)
    out = {'queries': 0, 'solver_s': 0.0, 'obligations': 0, 'validated': agree,
           'witnesses': [], 'malfunctions': [], 'twins_refuted': 0}
    if bad:
        out['status'] = 'ERROR'
        out['message'] = f'translator disagrees with re/regex: {bad[:3]}'
        return out
    unknown = []
    for rule in rules:
        out['obligations'] += 1
        try:
            a1 = rx.alternatives(rules[rule])
            a2 = rx.alternatives(rules2[rule])
            if not all(len(c) == 1 for _, c, _ in a1):
                raise rx.Unsupported('site pattern consumes != 1 residue')
            if not all(not lb and not la for lb, _, la in a2):
                raise rx.Unsupported('range pattern with look-around')
        except (rx.Unsupported, KeyError) as ex:
            unknown.append(f'{rule}: {type(ex).__name__} {ex}')
            continue
        e, f = pairing_query(a1, a2, N)
        r, dt, w = _solve(e, f)
        out['queries'] += 1
        out['solver_s'] += dt
        if r == 'sat':
            if real_pairing_ok(rule, w):
                out['malfunctions'].append(f'pairing model {w!r} for {rule} does not reproduce')
            else:
                out['witnesses'].append({'code': f'PAIRING:{rule}', 'input': w,
                                         'what': f'site/range lists of rule {rule!r} do not pair on {w!r}'})
        elif r != 'unsat':
            unknown.append(f'{rule}: solver {r}')
    # vacuity twin: a deliberately broken range table must be refuted
    a1 = rx.alternatives(r'([KR](?=[^P]))|((?<=W)K(?=P))|((?<=M)R(?=P))')
    a2 = rx.alternatives(r'([KR][^P])|(WKP)')       # MRP alternative dropped
    e, f = pairing_query(a1, a2, N)
    r, dt, w = _solve(e, f)
    out['queries'] += 1
    out['solver_s'] += dt
    if r == 'sat' and 'MRP' in w:
        out['twins_refuted'] += 1
    else:
        out['malfunctions'].append(f'vacuity twin (dropped MRP range) not refuted: {r} {w}')
    out['discharged'] = out['obligations'] - len(unknown) - len(out['witnesses'])
    out['solver_s'] = round(out['solver_s'], 2)
    out['detail'] = f'N={N}; {len(rules)} rules; translator validated on {agree} strings'
    if out['witnesses'] or out['malfunctions']:
        out['status'] = 'REFUTED'
    elif unknown:
        out['status'] = 'UNKNOWN'
        out['message'] = '; '.join(unknown)[:500]
    else:
        out['status'] = 'CONFIRMED'
    return out


def _spec_alts(entries):
    out = []
    for alt in entries:
        def mk(lst):
            return [rx.CS(d['neg'], [ord(c) for c in d['lits']], d['word']) for d in lst]
        out.append((mk(alt['lb']), mk(alt['c']), mk(alt['la'])))
    return out


def drift_query(live, spec, N, ranges):
    e = rx.Enc(N)
    viol = []
    for i in range(N):
        ml = [e.alt_match(alt, i) for alt in live]
        msp = [e.alt_match(alt, i) for alt in spec]
        viol.append(z3.Xor(z3.Or(ml), z3.Or(msp)))
        if ranges:
            el = z3.IntVal(-1)
            for alt, m in reversed(list(zip(live, ml))):
                el = z3.If(m, i + len(alt[1]), el)
            esp = z3.IntVal(-1)
            for alt, m in reversed(list(zip(spec, msp))):
                esp = z3.If(m, i + len(alt[1]), esp)
            viol.append(el != esp)
    return e, z3.Or(viol)


@zcond('C10', bounds='all 36 site rules and 36 range rules vs the frozen position-set table; every '
       'string over A-Z and * of length <= 10 (thorough 14)', encodes=ENC, timeout=300,
       timeout_thorough=1500)
def c10_rules_spec(tier):
    N = 10 if tier == 'quick' else 14
    rules, rules2 = _live()
    spec = json.load(open(SPEC))
    out = {'queries': 0, 'solver_s': 0.0, 'obligations': 0, 'validated': 0,
           'witnesses': [], 'malfunctions': [], 'twins_refuted': 0}
    unknown = []
    for table, live_rules, ranges in (('sites', rules, False), ('ranges', rules2, True)):
        names = set(live_rules) | set(spec[table])
        for rule in sorted(names):
            out['obligations'] += 1
            if rule not in live_rules:
                out['witnesses'].append({'code': f'DRIFT:{table}:{rule}', 'input': None,
                                         'what': f'rule {rule!r} removed from the live {table} table'})
                continue
            if rule not in spec[table]:
                unknown.append(f'{rule}: no frozen formulation (new enzyme)')
                continue
            try:
                live = rx.alternatives(live_rules[rule])
            except rx.Unsupported as ex:
                unknown.append(f'{rule}: {ex}')
                continue
            sp = _spec_alts(spec[table][rule])
            e, f = drift_query(live, sp, N, ranges)
            r, dt, w = _solve(e, f)
            out['queries'] += 1
            out['solver_s'] += dt
            if r == 'sat':
                # replay on the real engines against the frozen formulation
                if ranges:
                    real = [(m.start(), m.end()) for m in
                            regex.compile(live_rules[rule]).finditer(w, overlapped=True)]
                    ref = rx.model_ranges(sp, w)
                else:
                    real = [m.end() for m in re.finditer(live_rules[rule], w)]
                    ref = rx.model_sites(sp, w)
                if real == ref:
                    out['malfunctions'].append(f'drift model {w!r} for {rule} does not reproduce')
                else:
                    out['witnesses'].append({
                        'code': f'DRIFT:{table}:{rule}', 'input': w,
                        'what': f'{table} of rule {rule!r} on {w!r}: live {real} vs ExPASy formulation {ref}'})
            elif r != 'unsat':
                unknown.append(f'{rule}: solver {r}')
            else:
                out['validated'] += 1
    # vacuity twin
    live = rx.alternatives(r'([KR](?=[^P]))|((?<=W)K(?=P))')
    sp = _spec_alts(spec['sites']['trypsin'])
    e, f = drift_query(live, sp, N, False)
    r, dt, w = _solve(e, f)
    out['queries'] += 1
    if r == 'sat' and 'MRP' in w:
        out['twins_refuted'] += 1
    else:
        out['malfunctions'].append(f'vacuity twin (trypsin without MRP) not refuted: {r} {w}')
    out['discharged'] = out['obligations'] - len(unknown) - len(out['witnesses'])
    out['solver_s'] = round(out['solver_s'], 2)
    out['detail'] = f'N={N}; {out["obligations"]} table entries'
    if out['witnesses'] or out['malfunctions']:
        out['status'] = 'REFUTED'
    elif unknown:
        out['status'] = 'UNKNOWN'
        out['message'] = '; '.join(unknown)[:500]
    else:
        out['status'] = 'CONFIRMED'
    return out
