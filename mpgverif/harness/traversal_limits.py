"""C04 / C05, traversal stage on CONCRETE graphs with SYMBOLIC limits.

The peptide graph of a small concrete transcript with concrete variants is built once, outside the symbolic
run, by the real pipeline (ThreeFrameTVG.create_variant_graph -> fit_into_codons -> translate ->
create_cleavage_graph).  The real PeptideVariantGraph.call_variant_peptides is then executed with
miscleavage, min_length and max_length as symbolic integers (length limits UNBOUNDED): the solver decides, for every
value of the three limits, that the peptides reported are exactly the definitional ones - digest every haplotype
protein with a 10-line trypsin rule, keep what has <= miscleavage missed sites and a length within the limits
(N-terminal M removed form included), drop the digestion products of the unmodified protein.

What this is not: the graphs are two fixed examples; nothing is claimed for other transcripts or variants."""
import copy
import itertools

from Bio.Seq import Seq

from moPepGen.SeqFeature import FeatureLocation, MatchedLocation
from moPepGen.dna import DNASeqRecordWithCoordinates
from moPepGen.params import CleavageParams
from moPepGen.seqvar.VariantRecord import VariantRecord
from moPepGen.svgraph.ThreeFrameTVG import ThreeFrameTVG
from mpgverif.hlib import OK, SKIP, concretize, cond

USE_SHIM = True
USE_TOKENS = False

UTR5 = 'GCTAGCTTGACC'
UTR3 = 'GCCTCCTGACTCC'
CODON = {'A': 'GCT', 'S': 'TCT', 'T': 'ACT', 'E': 'GAA', 'D': 'GAC', 'L': 'CTG', 'V': 'GTT', 'G': 'GGT', 'H': 'CAC',
         'I': 'ATC', 'Q': 'CAG', 'N': 'AAC', 'K': 'AAA', 'R': 'CGT', 'M': 'ATG', 'F': 'TTC', 'Y': 'TAC', 'C': 'TGC'}
TABLE = {v: k for k, v in CODON.items()}


def _translate(dna):
    """independent of Biopython: the codons used here plus every single-base neighbour that occurs"""
    from Bio.Data import CodonTable
    fwd = CodonTable.unambiguous_dna_by_id[1].forward_table
    out = []
    for i in range(0, len(dna) - len(dna) % 3, 3):
        c = dna[i:i + 3]
        if c in ('TAA', 'TAG', 'TGA'):
            break
        out.append(fwd[c])
    return ''.join(out)


def _digest(prot):
    """(peptide, missed sites, is N-terminal) for trypsin: cut after K/R unless followed by P"""
    sites = [0] + [i + 1 for i in range(len(prot) - 1) if prot[i] in 'KR' and prot[i + 1] != 'P']
    sites.append(len(prot))
    out = set()
    for a in range(len(sites) - 1):
        for b in range(a + 1, len(sites)):
            pep = prot[sites[a]:sites[b]]
            out.add((pep, b - a - 1))
            if a == 0 and pep.startswith('M'):
                out.add((pep[1:], b - a - 1))
    return out


_SALT = 0


def _deterministic_addresses():
    """environment model of object addresses: PVGNode and TVGEdge define no __hash__, so Python hashes them by address and
    every set of nodes / edges iterates in an order that changes from process to process.  Inside harness processes the
    hash becomes a function of the creation order, so graph construction is the same in the symbolic run and in every
    replay (a defect that shows only for some orders is then either always or never visible for a given salt)."""
    from moPepGen.svgraph.PVGNode import PVGNode
    from moPepGen.svgraph.TVGEdge import TVGEdge
    for cls in (PVGNode, TVGEdge):
        if getattr(cls, '_mpgv_patched', False):
            continue
        counter = itertools.count(1)
        orig_init = cls.__init__

        def init(self, *a, _orig=orig_init, _counter=counter, **k):
            self._mpgv_serial = next(_counter)
            _orig(self, *a, **k)

        def node_hash(self):
            return ((getattr(self, '_mpgv_serial', 0) * 2654435761) ^ _SALT) & 0x3FFFFFFF

        cls.__init__ = init
        cls.__hash__ = node_hash
        cls._mpgv_patched = True


class _Lazy:
    """build a case on first use, outside the symbolic tracer: a failure of the (concrete) graph construction then
    surfaces inside the condition that needs it - and is reported for that property - instead of breaking the import
    of this module for every property"""

    def __init__(self, build):
        self.__dict__['_build'] = build
        self.__dict__['_obj'] = None

    def __getattr__(self, name):
        if self.__dict__['_obj'] is None:
            from crosshair.tracers import NoTracing
            with NoTracing():
                _deterministic_addresses()
                self.__dict__['_obj'] = self.__dict__['_build']()
        return getattr(self.__dict__['_obj'], name)


class _OrdSet(set):
    """environment model of an unordered set: iteration order = serial order of the members, reversed when the
    flag of this set is on.  Python leaves the order unspecified (PVGNode hashes by address), so every order is a
    legitimate behaviour of the environment; the flags are symbolic in c06_traversal_set_order."""
    FLAGS = []

    def __iter__(self):
        items = sorted(set.__iter__(self), key=lambda n: getattr(n, '_serial', 10 ** 9))
        k = getattr(self, '_k', 0)
        if len(items) > 1 and _OrdSet.FLAGS and _OrdSet.FLAGS[k % len(_OrdSet.FLAGS)]:
            items.reverse()
        return iter(items)

    def __reduce_ex__(self, proto):
        return (_ordset_rebuild, (list(set.__iter__(self)), getattr(self, '_k', 0)))

    def copy(self):
        return _ordset_rebuild(list(set.__iter__(self)), getattr(self, '_k', 0))


def _ordset_rebuild(items, k):
    s = _OrdSet(items)
    s._k = k
    return s


def _order_sets(pg):
    """give every node a serial number (deterministic walk) and turn its edge sets into _OrdSet"""
    seen, order, stack = set(), [], [pg.root]
    while stack:
        n = stack.pop()
        if id(n) in seen:
            continue
        seen.add(id(n))
        order.append(n)
        nxt = sorted(n.out_nodes, key=lambda m: (str(m.seq.seq) if m.seq is not None else '', m.reading_frame_index,
                                                 sorted(v.variant.id for v in m.variants)))
        stack.extend(reversed(nxt))
    for i, n in enumerate(order):
        n._serial = i
    for i, n in enumerate(order):
        n.out_nodes = _ordset_rebuild(list(n.out_nodes), i)
        n.in_nodes = _ordset_rebuild(list(n.in_nodes), i + 3)
    return len(order)


class _Case:
    def __init__(self, protein, variants, extra_canonical=(), collapse=(30, 5)):
        """variants: (cds offset, ref, alt); extra_canonical: peptides of OTHER proteins in the canonical pool;
        collapse: (--min-nodes-to-collapse, --naa-to-collapse) used when the cleavage graph is built"""
        self.collapse = collapse
        self.cds = ''.join(CODON[a] for a in protein)
        self.tx = UTR5 + self.cds + 'TAA' + UTR3
        self.vars = [(len(UTR5) + o, r, a) for o, r, a in variants]
        for p, r, a in self.vars:
            assert self.tx[p:p + len(r)] == r and r != a, (p, r, self.tx[p:p + len(r)])
        self.graph = self._build()
        ref = _digest(_translate(self.tx[len(UTR5):]))
        self.ref = {p for p, k in ref} | set(extra_canonical)
        self.cands = set()
        for n in range(1, len(self.vars) + 1):
            for sub in itertools.combinations(self.vars, n):
                if any(sub[i][0] + len(sub[i][1]) > sub[i + 1][0] for i in range(len(sub) - 1)):
                    continue
                s = self.tx
                for p, r, a in sorted(sub, reverse=True):
                    s = s[:p] + a + s[p + len(r):]
                self.cands |= _digest(_translate(s[len(UTR5):]))
        self.cands = {(p, k) for p, k in self.cands if p not in self.ref and p}
        self.deny = {Seq(p) for p in self.ref}

    def _build(self):
        recs = []
        for p, r, a in self.vars:
            typ = 'SNV' if len(r) == len(a) == 1 else 'INDEL'
            recs.append(VariantRecord(location=FeatureLocation(seqname='T1', start=p, end=p + len(r)), ref=r, alt=a,
                                      _type=typ, _id=f'{typ}-{p + 1}-{r}-{a}',
                                      attrs={'GENE_ID': 'G1', 'TRANSCRIPT_ID': 'T1'}))
        recs.sort()
        orf = FeatureLocation(start=len(UTR5), end=len(UTR5) + len(self.cds) + 3)
        loc = MatchedLocation(query=FeatureLocation(start=0, end=len(self.tx)),
                              ref=FeatureLocation(seqname='T1', start=0, end=len(self.tx)))
        seq = DNASeqRecordWithCoordinates(seq=Seq(self.tx), locations=[loc], orf=orf)
        p = CleavageParams(enzyme='trypsin', miscleavage=2, min_length=1, max_length=100, min_mw=0.,
                           min_nodes_to_collapse=self.collapse[0], naa_to_collapse=self.collapse[1])
        g = ThreeFrameTVG(seq=seq, _id='T1', has_known_orf=True, cleavage_params=p, max_adjacent_as_mnv=2,
                          coordinate_feature_type='transcript', coordinate_feature_id='T1')
        g.init_three_frames()
        g.create_variant_graph(recs, None, None, None)
        g.fit_into_codons()
        pg = g.translate()
        pg.create_cleavage_graph()
        self.n_nodes = _order_sets(pg)
        return pg

    def run(self, misc, lo, hi):
        from crosshair.tracers import NoTracing
        with NoTracing():
            pg = copy.deepcopy(self.graph)      # concrete data only: copied outside the symbolic tracer
        pg.cleavage_params = CleavageParams(enzyme='trypsin', miscleavage=misc, min_length=lo, max_length=hi,
                                            min_mw=0., min_nodes_to_collapse=self.collapse[0],
                                            naa_to_collapse=self.collapse[1])
        res = pg.call_variant_peptides(denylist=self.deny, truncate_sec=False, w2f=False,
                                       check_external_variants=True, check_orf=False)
        return {str(s) for s in res}

    def check(self, misc, lo, hi):
        got = self.run(misc, lo, hi)
        want = {p for p, k in self.cands if k <= misc and lo <= len(p) <= hi}
        if want - got:
            return -1
        if got - want:
            for p in got - want:
                if p in self.ref:
                    return -2
                if not lo <= len(p) <= hi:
                    return -3
            return -4
        return OK


CODES = {-1: 'a definitional variant peptide within the limits is not reported by the traversal',
         -2: 'a digestion product of the unmodified protein (canonical peptide) is reported',
         -3: 'a reported peptide violates the length limits',
         -4: 'a reported peptide is not a digestion product of any haplotype within the miscleavage limit'}
ENC = ['moPepGen.svgraph.PeptideVariantGraph.PeptideVariantGraph.call_variant_peptides / call_and_stage_known_orf* / '
       'PVGTraversal.stage', 'moPepGen.svgraph.VariantPeptideDict.VariantPeptideDict.add_miscleaved_sequences / '
       'find_miscleaved_nodes / MiscleavedNodes.join_miscleaved_peptides / translational_modification / '
       'get_peptide_sequences']
STUBS = ['graph built concretely by the real pipeline before the symbolic run (not part of the symbolic claim)',
         'min_mw = 0']

# MASTEDLVK | AADEGLVSTK | GGHLR | VVLIDEFYAK ; SNV E->V in peptide 1 (GAA->GTA), SNV D->E in peptide 2 (GAC->GAG)
# 'ASTVDLVK' (the M-removed variant form of peptide 1) is canonical through another protein: only 'MASTEVLVK' is owed
CASE_A = _Lazy(lambda: _Case('MASTEDLVKAADEGLVSTKGGHLRVVLIDEFYAK', [(4 * 3 + 1, 'A', 'T'), (11 * 3 + 2, 'C', 'G')],
                             extra_canonical=['ASTVDLVK']))
# K->N removes a cleavage site (AAA->AAC) in peptide 1; in-frame deletion of one codon in peptide 3
CASE_B = _Lazy(lambda: _Case('MASTEDLVKAADEGLVSTKGGHLRVVLIDEFYAK', [(8 * 3 + 2, 'A', 'C'), (19 * 3 + 2, 'TGGT', 'T')]))

# three SNVs inside peptide 2 (8 forms of it) with --min-nodes-to-collapse 3 --naa-to-collapse 3: the bubble is pop-collapsed
CASE_C = _Lazy(lambda: _Case('MASTEDLVKAADEGLVSTKGGHLRVVLIDEFYAK',
                             [(11 * 3 + 2, 'C', 'G'), (13 * 3 + 1, 'G', 'C'), (16 * 3 + 1, 'C', 'A')], collapse=(3, 3)))

_BA = ('ONE concrete transcript (34 codons, 4 tryptic peptides) with 2 concrete SNVs; miscleavage = %s, min_length and '
       'max_length UNBOUNDED symbolic integers')
_BB = ('ONE concrete transcript (34 codons, 4 tryptic peptides) with a cleavage-site-removing SNV and an in-frame deletion; '
       'miscleavage = %s, min_length and max_length UNBOUNDED symbolic integers')


def _mk(prop, case, name, misc, bounds, tiers):
    def f(lo: int, hi: int) -> int:
        """
        pre: 1 <= lo
        post: _ >= 0
        """
        return case.check(misc, lo, hi)
    f.__name__ = f.__qualname__ = name
    return cond(prop, bounds=bounds % misc, encodes=ENC, stubs=STUBS, codes=CODES, timeout=900, tiers=tiers)(f)


c05_traversal_limits_a0 = _mk('C05', CASE_A, 'c05_traversal_limits_a0', 0, _BA, ('quick', 'thorough'))
c05_traversal_limits_a1 = _mk('C05', CASE_A, 'c05_traversal_limits_a1', 1, _BA, ('quick', 'thorough'))
c05_traversal_limits_a2 = _mk('C05', CASE_A, 'c05_traversal_limits_a2', 2, _BA, ('quick', 'thorough'))
c05_traversal_limits_a3 = _mk('C05', CASE_A, 'c05_traversal_limits_a3', 3, _BA, ('thorough',))
c04_traversal_limits_b0 = _mk('C04', CASE_B, 'c04_traversal_limits_b0', 0, _BB, ('quick', 'thorough'))
c04_traversal_limits_b1 = _mk('C04', CASE_B, 'c04_traversal_limits_b1', 1, _BB, ('quick', 'thorough'))
c04_traversal_limits_b2 = _mk('C04', CASE_B, 'c04_traversal_limits_b2', 2, _BB, ('thorough',))
c04_traversal_limits_b3 = _mk('C04', CASE_B, 'c04_traversal_limits_b3', 3, _BB, ('thorough',))


_BC = ('ONE concrete transcript (34 codons) with 3 concrete SNVs inside one tryptic peptide, cleavage graph built with '
       '--min-nodes-to-collapse 3 --naa-to-collapse 3 (12 pop-collapsed nodes); miscleavage = %s, min_length and max_length '
       'UNBOUNDED symbolic integers')
c02_traversal_limits_c0 = _mk('C02', CASE_C, 'c02_traversal_limits_c0', 0, _BC, ('quick', 'thorough'))
c02_traversal_limits_c1 = _mk('C02', CASE_C, 'c02_traversal_limits_c1', 1, _BC, ('quick', 'thorough'))
c02_traversal_limits_c2 = _mk('C02', CASE_C, 'c02_traversal_limits_c2', 2, _BC, ('thorough',))

# three frameshifting deletions, cleavage graph built with --min-nodes-to-collapse 2 --naa-to-collapse 2: nodes that are
# already C-terminally pop-collapsed get split again (found by comparing candidate inputs against seed C02a)
CASE_D = _Lazy(lambda: _Case('MASTEDLVKAADEGLVSTKGGHLRVVLIDEFYAK',
                             [(16, 'ACCT', 'A'), (44, 'GG', 'G'), (52, 'CTAA', 'C')], collapse=(2, 2)))
_BD = ('ONE concrete transcript (34 codons) with 3 concrete frameshifting deletions, cleavage graph built with '
       '--min-nodes-to-collapse 2 --naa-to-collapse 2 (pop-collapsed nodes are split again); miscleavage = %s, min_length and '
       'max_length UNBOUNDED symbolic integers')
c02_traversal_limits_d0 = _mk('C02', CASE_D, 'c02_traversal_limits_d0', 0, _BD, ('quick', 'thorough'))
c02_traversal_limits_d1 = _mk('C02', CASE_D, 'c02_traversal_limits_d1', 1, _BD, ('thorough',))
# the comparison is an equality: code -1 (a definitional peptide is missing) is the C01 direction of the same cases
c01_traversal_limits_d0 = _mk('C01', CASE_D, 'c01_traversal_limits_d0', 0, _BD, ('quick', 'thorough'))
c01_traversal_limits_c0 = _mk('C01', CASE_C, 'c01_traversal_limits_c0', 0, _BC, ('quick', 'thorough'))


def _set_order(case, flags):
    """same limits, every iteration order of the edge sets selected by the flags"""
    _OrdSet.FLAGS = list(flags)
    try:
        return case.check(2, 1, 100)
    finally:
        _OrdSet.FLAGS = []


CODES_O = dict(CODES)
CODES_O[-1] = 'for some iteration order of the node sets a definitional variant peptide is not reported'
_BO = ('%s; limits fixed (miscleavage 2, length 1..100); the iteration order of every edge set of the peptide graph '
       '(in Python: decided by object addresses / the hash seed) is direct or reversed according to 6 symbolic flags')


@cond('C06', bounds=_BO % 'concrete transcript with 2 SNVs', encodes=ENC, codes=CODES_O, timeout=600,
      stubs=STUBS + ['set iteration order of PVGNode.in_nodes / out_nodes -> chosen by symbolic flags'])
def c06_traversal_set_order_a(f0: bool, f1: bool, f2: bool, f3: bool, f4: bool, f5: bool) -> int:
    """
    post: _ >= 0
    """
    return _set_order(CASE_A, [f0, f1, f2, f3, f4, f5])


@cond('C06', bounds=_BO % 'concrete transcript with a site-removing SNV and an in-frame deletion', encodes=ENC,
      codes=CODES_O, timeout=600,
      stubs=STUBS + ['set iteration order of PVGNode.in_nodes / out_nodes -> chosen by symbolic flags'])
def c06_traversal_set_order_b(f0: bool, f1: bool, f2: bool, f3: bool, f4: bool, f5: bool) -> int:
    """
    post: _ >= 0
    """
    return _set_order(CASE_B, [f0, f1, f2, f3, f4, f5])


# --------------------------------------------------------------------------
# C08: callNovelORF traversal of a concrete non-coding transcript, symbolic limits
# --------------------------------------------------------------------------
class _NovelCase:
    def __init__(self, tx, canonical=()):
        self.tx = tx
        self.ref = set(canonical)
        self.deny = {Seq(p) for p in self.ref}
        self.graph = self._build()
        self.cands = set()
        self.orfs = []
        for f in range(3):
            prot = self._translate_all(tx[f:])
            for i, a in enumerate(prot):
                if a != 'M':
                    continue
                j = prot.find('*', i)
                orf = prot[i:] if j == -1 else prot[i:j]
                self.orfs.append((f + 3 * i, orf))
                self.cands |= _digest(orf)
        self.cands = {(p, k) for p, k in self.cands if p and p not in self.ref}

    @staticmethod
    def _translate_all(dna):
        from Bio.Data import CodonTable
        fwd = CodonTable.unambiguous_dna_by_id[1].forward_table
        return ''.join(fwd.get(dna[i:i + 3], '*') for i in range(0, len(dna) - len(dna) % 3, 3))

    def _build(self):
        loc = MatchedLocation(query=FeatureLocation(start=0, end=len(self.tx)),
                              ref=FeatureLocation(seqname='T1', start=0, end=len(self.tx)))
        seq = DNASeqRecordWithCoordinates(seq=Seq(self.tx), locations=[loc], orf=None)
        p = CleavageParams(enzyme='trypsin', miscleavage=2, min_length=1, max_length=100, min_mw=0.)
        g = ThreeFrameTVG(seq=seq, _id='T1', cds_start_nf=True, has_known_orf=False, cleavage_params=p, gene_id='G1',
                          coordinate_feature_type='transcript', coordinate_feature_id='T1')
        g.init_three_frames()
        pg = g.translate()
        pg.create_cleavage_graph()
        self.n_nodes = _order_sets(pg)
        return pg

    def run(self, misc, lo, hi):
        from crosshair.tracers import NoTracing
        with NoTracing():
            pg = copy.deepcopy(self.graph)
        pg.cleavage_params = CleavageParams(enzyme='trypsin', miscleavage=misc, min_length=lo, max_length=hi, min_mw=0.)
        res = pg.call_variant_peptides(check_variants=False, check_orf=True, denylist=self.deny, orf_assignment='max',
                                       w2f=False, check_external_variants=False)
        return {str(s) for s in res}, pg

    def check(self, misc, lo, hi):
        got, pg = self.run(misc, lo, hi)
        want = {p for p, k in self.cands if k <= misc and lo <= len(p) <= hi}
        if want - got:
            return -1
        if got - want:
            for p in got - want:
                if p in self.ref:
                    return -2
                if not lo <= len(p) <= hi:
                    return -3
            return -4
        return OK


CODES_N = {-1: 'a digestion product of some ATG-to-stop ORF (any frame) within the limits is not reported',
           -2: 'a canonical peptide is reported', -3: 'a reported peptide violates the length limits',
           -4: 'a reported peptide is not a digestion product of any ATG-to-stop ORF within the miscleavage limit'}
# frame 0: M A S K M L D E R G H L K * ...   frame 1 has an ORF running to the transcript end
_TXN = ('ATGGCTTCTAAAATGCTGGACGAACGTGGTCACCTGAAATAA' 'C' 'ATGACTGAAGTTCGTGCTGCTGACAAAGGTGGT')
CASE_N = _Lazy(lambda: _NovelCase(_TXN, canonical=['GHLK', 'ASK']))   # 'ASK' = M-removed first peptide: 'MASK' is still owed
_BN = ('ONE concrete non-coding transcript (76 nt; nested ATGs, an ORF ending at a stop and one running to the transcript '
       'end; two canonical peptides in the pool, one of them the M-removed form of the first peptide of an ORF); miscleavage = %s, min_length and max_length UNBOUNDED symbolic integers')
ENC_N = ['moPepGen.svgraph.PeptideVariantGraph.PeptideVariantGraph.call_variant_peptides / call_and_stage_unknown_orf / '
         'PVGTraversal.stage', 'moPepGen.svgraph.VariantPeptideDict.VariantPeptideDict.add_miscleaved_sequences / '
         'find_miscleaved_nodes / MiscleavedNodes.join_miscleaved_peptides / translational_modification']


def _mkn(name, misc, tiers):
    def f(lo: int, hi: int) -> int:
        """
        pre: 1 <= lo
        post: _ >= 0
        """
        return CASE_N.check(misc, lo, hi)
    f.__name__ = f.__qualname__ = name
    return cond('C08', bounds=_BN % misc, encodes=ENC_N, stubs=STUBS, codes=CODES_N, timeout=900, tiers=tiers)(f)


c08_traversal_limits_0 = _mkn('c08_traversal_limits_0', 0, ('quick', 'thorough'))
c08_traversal_limits_1 = _mkn('c08_traversal_limits_1', 1, ('quick', 'thorough'))
c08_traversal_limits_2 = _mkn('c08_traversal_limits_2', 2, ('thorough',))


# --------------------------------------------------------------------------
# C09: callAltTranslation on a concrete selenoprotein transcript, symbolic limits, every flag combination
# --------------------------------------------------------------------------
class _Captured(Exception):
    def __init__(self, pgraph, kwargs):
        super().__init__('captured')
        self.pgraph, self.kwargs = pgraph, kwargs


class _AltCase:
    """M A S W K | A A U D E W L K | G G W H L R | V V K ; U = annotated selenocysteine (TGA)"""
    PROT = 'MASWKAAUDEWLKGGWHLRVVK'

    def __init__(self):
        import sys
        from moPepGen import dna, svgraph
        from mpgverif.harness.annobuild import anno_one_gene
        import moPepGen.cli.call_alt_translation  # noqa: F401
        cat = sys.modules['moPepGen.cli.call_alt_translation']
        codon = dict(CODON)
        codon.update({'W': 'TGG', 'U': 'TGA'})
        self.cds = ''.join(codon[a] for a in self.PROT)
        self.tx = UTR5 + self.cds + 'TAA' + UTR3
        cs = len(UTR5)
        ce = cs + len(self.cds) + 3
        u = cs + 3 * self.PROT.index('U')
        anno = anno_one_gene(0, len(self.tx), 1, [(0, len(self.tx))], cds=[(cs, ce - 3)], sec=[(u, u + 3)],
                             three_utr=[(ce, len(self.tx))])
        genome = dna.DNASeqDict({'chr1': dna.DNASeqRecord(Seq(self.tx), id='chr1', name='chr1', description='chr1')})
        self.graphs = {}
        real = svgraph.PeptideVariantGraph.call_variant_peptides

        def capture(pg, **kwargs):
            raise _Captured(pg, kwargs)

        for sect, w2f in ((True, False), (False, True), (True, True)):
            p = CleavageParams(enzyme='trypsin', miscleavage=2, min_length=1, max_length=100, min_mw=0.)
            svgraph.PeptideVariantGraph.call_variant_peptides = capture
            try:
                cat.call_alt_translation_main(tx_id='T1', tx_model=anno.transcripts['T1'], genome=genome, anno=anno,
                                              cleavage_params=p, w2f_reassignment=w2f, sec_truncation=sect)
                raise RuntimeError('call_variant_peptides was not reached')
            except _Captured as c:
                _order_sets(c.pgraph)
                self.graphs[(sect, w2f)] = (c.pgraph, c.kwargs)
            finally:
                svgraph.PeptideVariantGraph.call_variant_peptides = real
        full = _digest(self.PROT)
        trunc = _digest(self.PROT[:self.PROT.index('U')])
        self.base = {p for p, k in full}
        self.sect = {(p, k) for p, k in trunc if p and p not in self.base}

    @staticmethod
    def _w2f_forms(items):
        out = set()
        for p, k in items:
            ws = [i for i, a in enumerate(p) if a == 'W']
            for n in range(1, len(ws) + 1):
                for comb in itertools.combinations(ws, n):
                    q = list(p)
                    for i in comb:
                        q[i] = 'F'
                    out.add((''.join(q), k))
        return out

    def want(self, sect, w2f, misc, lo, hi):
        full = {(p, k) for p, k in _digest(self.PROT) if p}
        items = set()
        if sect:
            items |= self.sect
        if w2f:
            items |= self._w2f_forms(full)
            if sect:
                items |= self._w2f_forms(self.sect)
        return {p for p, k in items if k <= misc and lo <= len(p) <= hi and p not in self.base}

    def run(self, sect, w2f, misc, lo, hi):
        from crosshair.tracers import NoTracing
        with NoTracing():
            pg, kwargs = copy.deepcopy(self.graphs[(sect, w2f)])
        pg.cleavage_params = CleavageParams(enzyme='trypsin', miscleavage=misc, min_length=lo, max_length=hi, min_mw=0.)
        res = pg.call_variant_peptides(**kwargs)
        return res

    def check(self, sect, w2f, misc, lo, hi):
        res = self.run(sect, w2f, misc, lo, hi)
        got = {str(s) for s in res}
        want = self.want(sect, w2f, misc, lo, hi)
        if want - got:
            return -1
        if got - want:
            return -2
        for s, labels in res.items():
            for lab in labels:
                ids = lab.label.split('|')[1:-1]
                kinds = {i.split('-')[0] for i in ids}
                if not ids or not kinds <= {'SECT', 'W2F'}:
                    return -3
                if ('SECT' in kinds and not sect) or ('W2F' in kinds and not w2f):
                    return -3
                nf = len([i for i in ids if i.startswith('W2F')])
                if nf > str(s).count('F'):
                    return -3
        return OK


CODES_ALT = {-1: 'a peptide that arises only through the requested Sec termination / W>F substitution is not reported',
             -2: 'a reported peptide does not arise through the requested alternative translation events (or is a regular '
                 'digestion product, or violates the limits)',
             -3: 'a header names no SECT / W2F event, an event kind that was not requested, or more W>F events than '
                 'the peptide has F residues'}
ENC_ALT = ['moPepGen.cli.call_alt_translation.call_alt_translation_main (graph construction: concrete, before the symbolic '
           'run; flag plumbing into the traversal: captured from the real call)',
           'moPepGen.svgraph.PeptideVariantGraph.PeptideVariantGraph.call_variant_peptides / call_and_stage_known_orf*',
           'moPepGen.svgraph.VariantPeptideDict.MiscleavedNodes.join_miscleaved_peptides / translational_modification',
           'moPepGen.svgraph.VariantPeptideDict.VariantPeptideDict.translational_modification / find_codon_reassignments']
_BALT = ('ONE concrete selenoprotein transcript (22 codons: 4 tryptic peptides, one annotated Sec codon, 3 tryptophans); flags '
         '%s; miscleavage = %s, min_length and max_length UNBOUNDED symbolic integers')
CASE_ALT = _Lazy(_AltCase)


def _mkalt(name, sect, w2f, misc, tiers):
    def f(lo: int, hi: int) -> int:
        """
        pre: 1 <= lo
        post: _ >= 0
        """
        return CASE_ALT.check(sect, w2f, misc, lo, hi)
    f.__name__ = f.__qualname__ = name
    flags = ' '.join(x for x, on in (('--selenocysteine-termination', sect), ('--w2f-reassignment', w2f)) if on)
    return cond('C09', bounds=_BALT % (flags, misc), encodes=ENC_ALT, stubs=STUBS, codes=CODES_ALT, timeout=900,
                tiers=tiers)(f)


c09_traversal_sect_0 = _mkalt('c09_traversal_sect_0', True, False, 0, ('quick', 'thorough'))
c09_traversal_sect_1 = _mkalt('c09_traversal_sect_1', True, False, 1, ('quick', 'thorough'))
c09_traversal_w2f_0 = _mkalt('c09_traversal_w2f_0', False, True, 0, ('quick', 'thorough'))
c09_traversal_w2f_1 = _mkalt('c09_traversal_w2f_1', False, True, 1, ('quick', 'thorough'))
c09_traversal_both_0 = _mkalt('c09_traversal_both_0', True, True, 0, ('quick', 'thorough'))
c09_traversal_both_1 = _mkalt('c09_traversal_both_1', True, True, 1, ('quick', 'thorough'))
c09_traversal_both_2 = _mkalt('c09_traversal_both_2', True, True, 2, ('thorough',))


# --------------------------------------------------------------------------
# C05: adding a variant record only adds peptides, each naming the added variant (same limits, symbolic)
# --------------------------------------------------------------------------
CASE_A_SUB = _Lazy(lambda: _Case('MASTEDLVKAADEGLVSTKGGHLRVVLIDEFYAK', [(4 * 3 + 1, 'A', 'T')],
                                 extra_canonical=['ASTVDLVK']))
_ADDED_ID = 'SNV-%d-C-G' % (len(UTR5) + 11 * 3 + 2 + 1)


def _added_variant(misc, lo, hi):
    def labelled(case):
        from crosshair.tracers import NoTracing
        with NoTracing():
            pg = copy.deepcopy(case.graph)
        pg.cleavage_params = CleavageParams(enzyme='trypsin', miscleavage=misc, min_length=lo, max_length=hi, min_mw=0.)
        res = pg.call_variant_peptides(denylist=case.deny, truncate_sec=False, w2f=False,
                                       check_external_variants=True, check_orf=False)
        return {str(s): [x.label for x in labs] for s, labs in res.items()}
    small, big = labelled(CASE_A_SUB), labelled(CASE_A)
    for p in small:
        if p not in big:
            return -1              # adding a variant record removed a peptide
    for p, labs in big.items():
        if p in small:
            continue
        if not any(_ADDED_ID in lab.split('|') for lab in labs):
            return -2              # an added peptide does not name the added variant
    if lo <= hi and not big and misc >= 0 and lo <= 9 <= hi:
        return -3
    return OK


def _mkadd(name, misc, tiers):
    def f(lo: int, hi: int) -> int:
        """
        pre: 1 <= lo
        post: _ >= 0
        """
        return _added_variant(misc, lo, hi)
    f.__name__ = f.__qualname__ = name
    return cond('C05', bounds='ONE concrete transcript; variant set {SNV1} versus {SNV1, SNV2}; miscleavage = %s, min_length '
                'and max_length UNBOUNDED symbolic integers (the same values for both runs)' % misc, encodes=ENC, stubs=STUBS,
                codes={-1: 'adding a variant record removed a peptide from the output',
                       -2: 'a peptide added by the extra variant record does not name that variant in any header entry',
                       -3: 'no peptide reported although a 9-residue variant peptide is within the limits'},
                timeout=900, tiers=tiers)(f)


c05_added_variant_0 = _mkadd('c05_added_variant_0', 0, ('quick', 'thorough'))
c05_added_variant_1 = _mkadd('c05_added_variant_1', 1, ('quick', 'thorough'))
c05_added_variant_2 = _mkadd('c05_added_variant_2', 2, ('thorough',))


# --------------------------------------------------------------------------
# C15 (second half) / C01 / C02: fusion transcript, concrete, symbolic limits
# --------------------------------------------------------------------------
class _Pool:
    """variant pool stand-in without further variants"""

    def __contains__(self, key):
        return False

    def filter_variants(self, **kwargs):
        return []


class _Ref:
    def __init__(self, anno, genome):
        self.anno, self.genome = anno, genome


class _FusionCase:
    DONOR = 'MASTEDLVKAADEGLVSTKGGHLRVVK'
    ACCEPTOR = 'MQNHIDELLKSSYTEFKAAGRHVVDK'

    def __init__(self, donor_codons, acceptor_offset, end_nf=False):
        """donor transcript up to `donor_codons` codons of its CDS, then the acceptor transcript from
        `acceptor_offset` nt into ITS CDS.  end_nf: the acceptor is tagged mRNA_end_NF - its model stops in the middle
        of the CDS (no stop codon, no 3'UTR), so the last, open-ended fragment is not a digestion product"""
        import sys
        from moPepGen import dna, gtf, svgraph
        from mpgverif.harness.annobuild import gene_model, tx_model
        import moPepGen.cli.call_variant_peptide  # noqa: F401
        cvp = sys.modules['moPepGen.cli.call_variant_peptide']
        d_cds = ''.join(CODON[a] for a in self.DONOR)
        a_cds = ''.join(CODON[a] for a in self.ACCEPTOR)
        d_tx = UTR5 + d_cds + 'TAA' + UTR3
        a_tx = 'GGCTCAGTCC' + a_cds + 'TGA' + 'CCGTTAGC'
        if end_nf:
            a_cds = a_cds[:-3]
            a_tx = 'GGCTCAGTCC' + a_cds + 'GG'
        gap = 'TTTTTTTTTT'
        chrom = d_tx + gap + a_tx
        a0 = len(d_tx) + len(gap)
        self.fused = d_tx[:len(UTR5) + 3 * donor_codons] + a_tx[10 + acceptor_offset:]
        txs = {'T1': tx_model('T1', 'G1', 'chr1', 1, [(0, len(d_tx))], cds=[(len(UTR5), len(UTR5) + len(d_cds))],
                              three_utr=[(len(UTR5) + len(d_cds) + 3, len(d_tx))]),
               'T2': (tx_model('T2', 'G2', 'chr1', 1, [(a0, a0 + len(a_tx))], cds=[(a0 + 10, a0 + len(a_tx))],
                               tags=['mRNA_end_NF']) if end_nf else
                      tx_model('T2', 'G2', 'chr1', 1, [(a0, a0 + len(a_tx))], cds=[(a0 + 10, a0 + 10 + len(a_cds))],
                               three_utr=[(a0 + 10 + len(a_cds) + 3, a0 + len(a_tx))]))}
        genes = {'G1': gene_model('G1', 'chr1', 0, len(d_tx), 1, ['T1']),
                 'G2': gene_model('G2', 'chr1', a0, a0 + len(a_tx), 1, ['T2'])}
        anno = gtf.GenomicAnnotation(genes=genes, transcripts=txs, source='GENCODE')
        genome = dna.DNASeqDict({'chr1': dna.DNASeqRecord(Seq(chrom), id='chr1', name='chr1', description='chr1')})
        tx_seqs = {t: m.get_transcript_sequence(genome['chr1']) for t, m in txs.items()}
        bp = len(UTR5) + 3 * donor_codons
        fusion = VariantRecord(
            location=FeatureLocation(seqname='T1', start=bp, end=bp + 1), ref=d_tx[bp], alt='<FUSION>', _type='Fusion',
            _id=f'FUSION-T1:{bp}-T2:{10 + acceptor_offset}',
            attrs={'GENE_ID': 'G1', 'TRANSCRIPT_ID': 'T1', 'ACCEPTER_GENE_ID': 'G2', 'ACCEPTER_TRANSCRIPT_ID': 'T2',
                   'ACCEPTER_POSITION': 10 + acceptor_offset, 'ACCEPTER_SYMBOL': 'G2N', 'GENE_SYMBOL': 'G1N',
                   'LEFT_INSERTION_START': None, 'LEFT_INSERTION_END': None, 'RIGHT_INSERTION_START': None,
                   'RIGHT_INSERTION_END': None})
        canon = {p for p, k in _digest(self.DONOR)} | {p for p, k in _digest(self.ACCEPTOR)}
        self.ref = canon
        self.deny = {Seq(p) for p in canon}
        real = svgraph.PeptideVariantGraph.call_variant_peptides

        def capture(pg, **kwargs):
            raise _Captured(pg, kwargs)

        p = CleavageParams(enzyme='trypsin', miscleavage=2, min_length=1, max_length=100, min_mw=0.)
        svgraph.PeptideVariantGraph.call_variant_peptides = capture
        try:
            cvp.call_peptide_fusion(variant=fusion, variant_pool=_Pool(), ref=_Ref(anno, genome), tx_seqs=tx_seqs,
                                    gene_seqs={}, cleavage_params=p, max_adjacent_as_mnv=2, w2f_reassignment=False,
                                    denylist=self.deny, save_graph=False, coding_novel_orf=False)
            raise RuntimeError('call_variant_peptides was not reached')
        except _Captured as c:
            _order_sets(c.pgraph)
            self.graph, self.kwargs = c.pgraph, c.kwargs
        finally:
            svgraph.PeptideVariantGraph.call_variant_peptides = real
        prot = _translate(self.fused[len(UTR5):])
        self.prot = prot
        self.cands = {(q, k) for q, k in _digest(prot) if q and q not in canon}
        ran_off = len(self.fused) - (len(UTR5) + 3 * len(prot)) < 3      # translation reached the end without a stop
        if end_nf and ran_off:
            # peptides reaching the open end of the incomplete transcript model are not digestion products
            self.cands = {(q, k) for q, k in self.cands if not prot.endswith(q) or prot[-1] in 'KR'}

    def run(self, misc, lo, hi):
        from crosshair.tracers import NoTracing
        with NoTracing():
            pg, kwargs = copy.deepcopy((self.graph, self.kwargs))
        pg.cleavage_params = CleavageParams(enzyme='trypsin', miscleavage=misc, min_length=lo, max_length=hi, min_mw=0.)
        return pg.call_variant_peptides(**kwargs)

    def check(self, misc, lo, hi):
        res = self.run(misc, lo, hi)
        got = {str(s) for s in res}
        want = {p for p, k in self.cands if k <= misc and lo <= len(p) <= hi}
        if want - got:
            return -1
        if got - want:
            return -2
        for s, labels in res.items():
            for lab in labels:
                if not lab.label.startswith('FUSION-T1:'):
                    return -3
        return OK


CODES_F = {-1: 'a digestion product of the fused sequence (donor up to the breakpoint + acceptor from its breakpoint, read from '
               'the donor start codon) that is not canonical is not reported',
           -2: 'a reported peptide is not a non-canonical digestion product of the fused sequence within the limits',
           -3: 'a header entry does not name the fusion as backbone'}
ENC_F = ['moPepGen.cli.call_variant_peptide.call_peptide_fusion (graph construction incl. ThreeFrameTVG.apply_fusion: concrete, '
         'before the symbolic run)', 'moPepGen.svgraph.PeptideVariantGraph.PeptideVariantGraph.call_variant_peptides / '
         'call_and_stage_known_orf*', 'moPepGen.svgraph.VariantPeptideDict.*']
_BF = ('ONE concrete fusion: donor transcript (27 codons) cut after codon 13, acceptor transcript (26 codons) entered %s; both '
       'breakpoints exonic; no further variants; canonical pool = digests of both proteins; miscleavage = %s, min_length and '
       'max_length UNBOUNDED symbolic integers')
CASE_F_IN = _Lazy(lambda: _FusionCase(13, 6))
CASE_F_FS = _Lazy(lambda: _FusionCase(13, 4))


def _mkf(name, case, how, misc, tiers):
    def f(lo: int, hi: int) -> int:
        """
        pre: 1 <= lo
        post: _ >= 0
        """
        return case.check(misc, lo, hi)
    f.__name__ = f.__qualname__ = name
    return cond('C15', bounds=_BF % (how, misc), encodes=ENC_F, stubs=STUBS + ['variant pool -> stand-in without further variants'],
                codes=CODES_F, timeout=900, tiers=tiers)(f)


c15_fusion_traversal_in_0 = _mkf('c15_fusion_traversal_in_0', CASE_F_IN, 'in frame (6 nt into its CDS)', 0, ('quick', 'thorough'))
c15_fusion_traversal_in_1 = _mkf('c15_fusion_traversal_in_1', CASE_F_IN, 'in frame (6 nt into its CDS)', 1, ('quick', 'thorough'))
c15_fusion_traversal_fs_0 = _mkf('c15_fusion_traversal_fs_0', CASE_F_FS, 'out of frame (4 nt into its CDS)', 0, ('quick', 'thorough'))
c15_fusion_traversal_fs_1 = _mkf('c15_fusion_traversal_fs_1', CASE_F_FS, 'out of frame (4 nt into its CDS)', 1, ('quick', 'thorough'))
c15_fusion_traversal_in_2 = _mkf('c15_fusion_traversal_in_2', CASE_F_IN, 'in frame (6 nt into its CDS)', 2, ('thorough',))


# --------------------------------------------------------------------------
# C01 / C02 circRNA clause (+ C05 backsplicing-only): concrete circRNA of two exons, symbolic limits
# --------------------------------------------------------------------------
class _CircCase:
    """gene = exon1 | intron | exon2; the circRNA joins the end of exon2 back to the start of exon1.  Reading the circle
    from its ATG gives M A S T E D L V K A A D E G L V S T K G G H L R, runs over the back-splice junction into a second,
    frame-shifted lap and stops there."""

    def __init__(self):
        import sys
        from moPepGen import circ, dna
        from moPepGen.SeqFeature import SeqFeature
        import moPepGen.cli.call_variant_peptide  # noqa: F401
        cvp = sys.modules['moPepGen.cli.call_variant_peptide']
        from moPepGen import svgraph
        prot = 'MASTEDLVKAADEGLVSTKGGHLR'
        cds = ''.join(CODON[a] for a in prot)
        e1, intron, e2 = 'GC' + cds[:40], 'GTAAGTTTTTTTTTTCAG', cds[40:] + 'GCATT'
        gene = e1 + intron + e2
        self.circle = e1 + e2
        frags = [(0, len(e1)), (len(e1) + len(intron), len(gene))]
        loc = MatchedLocation(query=FeatureLocation(start=0, end=len(gene)),
                              ref=FeatureLocation(seqname='G1', start=0, end=len(gene)))
        gene_seq = dna.DNASeqRecordWithCoordinates(Seq(gene), locations=[loc], orf=None)
        fr = [SeqFeature(chrom='G1', location=FeatureLocation(seqname='G1', start=a, end=b), attributes={})
              for a, b in frags]
        rec = circ.CircRNAModel('T1', fr, [], 'CIRC-T1-0:%d' % len(gene), 'G1', 'G1N')
        # canonical pool: the linear protein of the host transcript
        self.ref = {p for p, k in _digest(prot)}
        self.deny = {Seq(p) for p in self.ref}
        self.graphs = {}
        real = svgraph.PeptideVariantGraph.call_variant_peptides

        def capture(pg, **kwargs):
            raise _Captured(pg, kwargs)

        for bs in (False, True):
            p = CleavageParams(enzyme='trypsin', miscleavage=2, min_length=1, max_length=100, min_mw=0.)
            svgraph.PeptideVariantGraph.call_variant_peptides = capture
            try:
                cvp.call_peptide_circ_rna(record=copy.deepcopy(rec), variant_pool=_Pool(), gene_seqs={'G1': gene_seq},
                                          cleavage_params=p, max_adjacent_as_mnv=2, backsplicing_only=bs,
                                          w2f_reassignment=False, denylist=self.deny, save_graph=False)
                raise RuntimeError('call_variant_peptides was not reached')
            except _Captured as c:
                _order_sets(c.pgraph)
                self.graphs[bs] = (c.pgraph, c.kwargs)
            finally:
                svgraph.PeptideVariantGraph.call_variant_peptides = real
        ext = self.circle * 4
        self.cands = set()
        for i in range(len(self.circle)):
            if ext[i:i + 3] != 'ATG':
                continue
            orf = _NovelCase._translate_all(ext[i:])
            j = orf.find('*')
            orf = orf if j == -1 else orf[:j]
            self.cands |= {(q, k) for q, k in _digest(orf) if q and q not in self.ref}

    def run(self, bs, misc, lo, hi):
        from crosshair.tracers import NoTracing
        with NoTracing():
            pg, kwargs = copy.deepcopy(self.graphs[bs])
        pg.cleavage_params = CleavageParams(enzyme='trypsin', miscleavage=misc, min_length=lo, max_length=hi, min_mw=0.)
        return {str(s) for s in pg.call_variant_peptides(**kwargs)}

    def check(self, misc, lo, hi):
        got = self.run(False, misc, lo, hi)
        want = {p for p, k in self.cands if k <= misc and lo <= len(p) <= hi}
        if want - got:
            return -1
        if got - want:
            return -2
        if not self.run(True, misc, lo, hi) <= got:
            return -3
        return OK


CASE_CIRC = _Lazy(_CircCase)
CODES_CIRC = {-1: 'a non-canonical digestion product of the circular reading (any ATG of the circle, read around the '
                  'back-splice junction until a stop) within the limits is not reported',
              -2: 'a reported peptide is not such a digestion product',
              -3: '--backsplicing-only reports a peptide that the unrestricted run does not'}
ENC_CIRC = ['moPepGen.cli.call_variant_peptide.call_peptide_circ_rna (ThreeFrameCVG construction, extend_loop, '
            'truncate_three_frames: concrete, before the symbolic run)',
            'moPepGen.svgraph.PeptideVariantGraph.PeptideVariantGraph.call_variant_peptides / call_and_stage_unknown_orf',
            'moPepGen.svgraph.VariantPeptideDict.*']


def _mkcirc(prop, name, misc, tiers):
    def f(lo: int, hi: int) -> int:
        """
        pre: 1 <= lo
        post: _ >= 0
        """
        return CASE_CIRC.check(misc, lo, hi)
    f.__name__ = f.__qualname__ = name
    return cond(prop, bounds='ONE concrete circRNA of two exons (91 nt, one ATG, the reading crosses the back-splice junction '
                'once and stops in the second lap), no further variants, canonical pool = digest of the linear protein; '
                'unrestricted and --backsplicing-only; miscleavage = %s, min_length and max_length UNBOUNDED symbolic '
                'integers' % misc, encodes=ENC_CIRC, stubs=STUBS + ['variant pool -> stand-in without further variants'],
                codes=CODES_CIRC, timeout=2400, tiers=tiers)(f)


c01_circ_traversal_0 = _mkcirc('C01', 'c01_circ_traversal_0', 0, ('quick', 'thorough'))
c01_circ_traversal_1 = _mkcirc('C01', 'c01_circ_traversal_1', 1, ('thorough',))
c01_circ_traversal_2 = _mkcirc('C01', 'c01_circ_traversal_2', 2, ('thorough',))


# --------------------------------------------------------------------------
# C03 end to end on the fixed transcripts: every (peptide, header entry) pair, symbolic limits
# --------------------------------------------------------------------------
def _headers(case, misc, lo, hi):
    from crosshair.tracers import NoTracing
    with NoTracing():
        pg = copy.deepcopy(case.graph)
    pg.cleavage_params = CleavageParams(enzyme='trypsin', miscleavage=misc, min_length=lo, max_length=hi, min_mw=0.,
                                        min_nodes_to_collapse=case.collapse[0], naa_to_collapse=case.collapse[1])
    res = pg.call_variant_peptides(denylist=case.deny, truncate_sec=False, w2f=False,
                                   check_external_variants=True, check_orf=False)
    by_id = {}
    for p, r, a in case.vars:
        typ = 'SNV' if len(r) == len(a) == 1 else 'INDEL'
        by_id[f'{typ}-{p + 1}-{r}-{a}'] = (p, r, a)
    seen = set()
    n = 0
    for seq, labels in res.items():
        for lab in labels:
            n += 1
            if lab.label in seen:
                return -4          # a header entry string occurs twice
            seen.add(lab.label)
            parts = lab.label.split('|')
            if parts[0] != 'T1' or not parts[-1].isdigit():
                return -1          # backbone / index malformed
            ids = parts[1:-1]
            if not ids or any(i not in by_id for i in ids) or len(set(ids)) != len(ids):
                return -2          # names a variant that was not supplied (or none, or one twice)
            chosen = sorted((by_id[i] for i in ids), reverse=True)
            s = case.tx
            ok = True
            for k in range(len(chosen) - 1):
                if chosen[k + 1][0] + len(chosen[k + 1][1]) > chosen[k][0]:
                    ok = False     # named variants overlap: cannot be applied together
            if not ok:
                return -3
            for p, r, a in chosen:
                s = s[:p] + a + s[p + len(r):]
            prods = {q for q, k in _digest(_translate(s[len(UTR5):])) if k <= misc}
            if str(seq) not in prods:
                return -3          # applying exactly the named variants does not yield the peptide
    return OK if n else SKIP


CODES_H = {-1: 'header entry does not start with the backbone or end with its index',
           -2: 'header entry names no variant, a variant that was not supplied, or one variant twice',
           -3: 'applying exactly the named variants to the transcript does not give a translation in which the peptide is a '
               'digestion product within the miscleavage limit',
           -4: 'a header entry string (with index) occurs twice in the output'}


def _mkh(name, case, what, misc, tiers):
    def f(lo: int, hi: int) -> int:
        """
        pre: 1 <= lo
        post: _ >= 0
        """
        return _headers(case, misc, lo, hi)
    f.__name__ = f.__qualname__ = name
    return cond('C03', bounds='ONE concrete transcript (%s), every (peptide, header entry) pair of the traversal output; '
                'miscleavage = %s, min_length and max_length UNBOUNDED symbolic integers' % (what, misc), encodes=ENC,
                stubs=STUBS, codes=CODES_H, timeout=900, tiers=tiers)(f)


c03_headers_a1 = _mkh('c03_headers_a1', CASE_A, '2 SNVs', 1, ('quick', 'thorough'))
c03_headers_b1 = _mkh('c03_headers_b1', CASE_B, 'site-removing SNV + in-frame deletion', 1, ('quick', 'thorough'))
c03_headers_c1 = _mkh('c03_headers_c1', CASE_C, '3 SNVs in a pop-collapsed bubble', 1, ('quick', 'thorough'))
c03_headers_a2 = _mkh('c03_headers_a2', CASE_A, '2 SNVs', 2, ('thorough',))
c03_headers_c2 = _mkh('c03_headers_c2', CASE_C, '3 SNVs in a pop-collapsed bubble', 2, ('thorough',))


# --------------------------------------------------------------------------
# C02 / C03 with --selenocysteine-termination: concrete selenoprotein with two SNVs through the real call_peptide_main
# --------------------------------------------------------------------------
class _SecVarCase:
    """M A E G L L T D N K | V S A G T L E Q K | M T P E L D G H U A V L N R | G G H K
    SNV1: D>A in peptide 3 (GAC>GCC); SNV2: H>Q in the codon directly before the Sec codon (CAC>CAG, abutting TGA).
    Peptide 3 starts with an INTERNAL methionine."""
    PROT = 'MAEGLLTDNKVSAGTLEQKMTPELDGHUAVLNRGGHK'

    def __init__(self, variants=None):
        import sys
        from moPepGen import dna, svgraph
        from mpgverif.harness.annobuild import anno_one_gene
        import moPepGen.cli.call_variant_peptide  # noqa: F401
        cvp = sys.modules['moPepGen.cli.call_variant_peptide']
        codon = dict(CODON)
        codon.update({'U': 'TGA', 'P': 'CCG'})
        self.cds = ''.join(codon[a] for a in self.PROT)
        self.tx = UTR5 + self.cds + 'TAA' + UTR3
        cs = len(UTR5)
        ce = cs + len(self.cds) + 3
        self.u = cs + 3 * self.PROT.index('U')
        d = cs + 3 * self.PROT.index('D', 20) + 1
        h = cs + 3 * self.PROT.index('H') + 2
        self.vars = [(d, 'A', 'C'), (h, 'C', 'G')]
        if variants is not None:
            self.vars = [(cs + o, r, a) for o, r, a in variants]
        for p, r, a in self.vars:
            assert self.tx[p:p + len(r)] == r, (p, r, self.tx[p:p + len(r)])
        anno = anno_one_gene(0, len(self.tx), 1, [(0, len(self.tx))], cds=[(cs, ce - 3)], sec=[(self.u, self.u + 3)],
                             three_utr=[(ce, len(self.tx))])
        genome = dna.DNASeqDict({'chr1': dna.DNASeqRecord(Seq(self.tx), id='chr1', name='chr1', description='chr1')})
        tx_seqs = {'T1': anno.transcripts['T1'].get_transcript_sequence(genome['chr1'])}
        recs = []
        self.ids = {}
        for p, r, a in self.vars:
            typ = 'SNV' if len(r) == len(a) == 1 else 'INDEL'
            vid = f'{typ}-{p + 1}-{r}-{a}'
            self.ids[vid] = (p, r, a)
            recs.append(VariantRecord(location=FeatureLocation(seqname='T1', start=p, end=p + len(r)), ref=r, alt=a,
                                      _type=typ, _id=vid, attrs={'GENE_ID': 'G1', 'TRANSCRIPT_ID': 'T1'}))
        ref_full = self._tr(self.tx, False)
        ref_trunc = self._tr(self.tx, True)
        self.ref = {q for q, k in _digest(ref_full)} | {q for q, k in _digest(ref_trunc)}
        # as the real wrapper does (call_canonical_peptides with truncate_sec): canonical = full and Sec-truncated reference
        self.deny = {Seq(q) for q in self.ref}
        real = svgraph.PeptideVariantGraph.call_variant_peptides

        def capture(pg, **kwargs):
            raise _Captured(pg, kwargs)

        p = CleavageParams(enzyme='trypsin', miscleavage=2, min_length=1, max_length=100, min_mw=0.)
        svgraph.PeptideVariantGraph.call_variant_peptides = capture
        try:
            cvp.call_peptide_main(tx_id='T1', tx_variants=recs, variant_pool=_Pool(), ref=_Ref(anno, genome),
                                  tx_seqs=tx_seqs, gene_seqs={}, cleavage_params=p, max_adjacent_as_mnv=2,
                                  truncate_sec=True, w2f=False, denylist=self.deny, save_graph=False,
                                  coding_novel_orf=False)
            raise RuntimeError('call_variant_peptides was not reached')
        except _Captured as c:
            _order_sets(c.pgraph)
            self.graph, self.kwargs = c.pgraph, c.kwargs
        finally:
            svgraph.PeptideVariantGraph.call_variant_peptides = real
        self.cands = set()
        for n in range(1, len(self.vars) + 1):
            for sub in itertools.combinations(self.vars, n):
                s = self._apply(sub)
                self.cands |= _digest(self._tr(s, False)) | _digest(self._tr(s, True))
        self.cands = {(q, k) for q, k in self.cands if q and q not in self.ref}

    def _apply(self, sub):
        s = self.tx
        for p, r, a in sub:
            s = s[:p] + a + s[p + 1:]
        return s

    def _tr(self, tx, truncate):
        """translate the CDS; the annotated Sec codon reads U, or ends the protein when truncate"""
        from Bio.Data import CodonTable
        fwd = CodonTable.unambiguous_dna_by_id[1].forward_table
        out = []
        for i in range(len(UTR5), len(tx) - 2, 3):
            c = tx[i:i + 3]
            if i == self.u:
                if truncate:
                    break
                out.append('U')
                continue
            if c in ('TAA', 'TAG', 'TGA'):
                break
            out.append(fwd[c])
        return ''.join(out)

    def run(self, misc, lo, hi):
        from crosshair.tracers import NoTracing
        with NoTracing():
            pg, kwargs = copy.deepcopy((self.graph, self.kwargs))
        pg.cleavage_params = CleavageParams(enzyme='trypsin', miscleavage=misc, min_length=lo, max_length=hi, min_mw=0.)
        return pg.call_variant_peptides(**kwargs)

    def check(self, misc, lo, hi):
        got = {str(s) for s in self.run(misc, lo, hi)}
        want = {q for q, k in self.cands if k <= misc and lo <= len(q) <= hi}
        if want - got:
            return -1
        if got - want:
            return -4
        return OK

    def headers(self, misc, lo, hi):
        res = self.run(misc, lo, hi)
        seen = set()
        n = 0
        for seq, labels in res.items():
            for lab in labels:
                n += 1
                if lab.label in seen:
                    return -4
                seen.add(lab.label)
                parts = lab.label.split('|')
                if parts[0] != 'T1' or not parts[-1].isdigit():
                    return -1
                ids = parts[1:-1]
                sect = [i for i in ids if i.startswith('SECT-')]
                small = [i for i in ids if not i.startswith('SECT-')]
                if not ids or len(sect) > 1 or any(i not in self.ids for i in small) or len(set(ids)) != len(ids):
                    return -2
                s = self._apply([self.ids[i] for i in small])
                prods = {q for q, k in _digest(self._tr(s, bool(sect))) if k <= misc}
                if str(seq) not in prods:
                    return -3
        return OK if n else SKIP


CASE_SECVAR = _Lazy(_SecVarCase)
ENC_SV = ['moPepGen.cli.call_variant_peptide.call_peptide_main (graph construction with gather_sect_variants: concrete, '
          'before the symbolic run)'] + ENC
_BSV = ('ONE concrete selenoprotein transcript (37 codons) with 2 SNVs in the peptide that holds the Sec codon (one of them '
        'abutting the codon; the peptide starts with an internal methionine), --selenocysteine-termination on; '
        'miscleavage = %s, min_length and max_length UNBOUNDED symbolic integers')


def _mksv(prop, name, what, misc, tiers):
    def f(lo: int, hi: int) -> int:
        """
        pre: 1 <= lo
        post: _ >= 0
        """
        return getattr(CASE_SECVAR, what)(misc, lo, hi)
    f.__name__ = f.__qualname__ = name
    codes = CODES_H if what == 'headers' else CODES
    return cond(prop, bounds=_BSV % misc, encodes=ENC_SV, stubs=STUBS + ['variant pool -> stand-in without further variants'],
                codes=codes, timeout=900, tiers=tiers)(f)


c02_sect_traversal_1 = _mksv('C02', 'c02_sect_traversal_1', 'check', 1, ('quick', 'thorough'))
c02_sect_traversal_2 = _mksv('C02', 'c02_sect_traversal_2', 'check', 2, ('thorough',))
c03_sect_headers_1 = _mksv('C03', 'c03_sect_headers_1', 'headers', 1, ('quick', 'thorough'))
c03_sect_headers_2 = _mksv('C03', 'c03_sect_headers_2', 'headers', 2, ('thorough',))


# --------------------------------------------------------------------------
# C16 -> callVariant (C01 alternative-splicing clause): rMATS record -> GVF record -> pool conversion -> peptides
# --------------------------------------------------------------------------
class _FakePointer:
    is_circ_rna = False                # attribute of the real GVFPointer

    def __init__(self, records):
        self.records = records

    def load(self):
        return list(self.records)


class _SpliceCase:
    """gene on the + strand: exon1 | intron1 (12 nt) | exon2 (15 nt) | intron2 (12 nt) | exon3; annotated isoform has all three
    exons.  kind 'SE': exon 2 skipped (in-frame deletion); kind 'RI': intron 1 retained (in-frame insertion)."""
    P1, P2, P3 = 'MASTEDLV', 'KAADE', 'GLVSTKGGHLRVVK'

    def __init__(self, kind):
        import sys
        from moPepGen import dna, svgraph
        from moPepGen.parser.RMATSParser.RIRecord import RIRecord
        from moPepGen.parser.RMATSParser.SERecord import SERecord
        from moPepGen.seqvar.VariantRecordPoolOnDisk import VariantRecordPoolOnDisk
        from mpgverif.harness.annobuild import anno_one_gene
        import moPepGen.cli.call_variant_peptide  # noqa: F401
        cvp = sys.modules['moPepGen.cli.call_variant_peptide']
        c1, c2, c3 = (''.join(CODON[a] for a in p) for p in (self.P1, self.P2, self.P3))
        e1, i1, e2, i2, e3 = UTR5 + c1, 'GTAAAAAAAAAG', c2, 'GTTTTTTTTCAG', c3 + 'TAA' + UTR3
        gene = e1 + i1 + e2 + i2 + e3
        b = [0, len(e1), len(e1 + i1), len(e1 + i1 + e2), len(e1 + i1 + e2 + i2), len(gene)]
        exons = [(b[0], b[1]), (b[2], b[3]), (b[4], b[5])]
        cds_end = b[4] + len(c3)
        cds = [(len(UTR5), b[1]), (b[2], b[3]), (b[4], cds_end)]
        anno = anno_one_gene(0, len(gene), 1, exons, cds=cds, cds_frames=[0, (3 - len(c1) % 3) % 3, (3 - len(c1 + c2) % 3) % 3],
                             three_utr=[(cds_end + 3, len(gene))])
        genome = dna.DNASeqDict({'chr1': dna.DNASeqRecord(Seq(gene), id='chr1', name='chr1', description='chr1')})
        tail = dict(ijc_sample_2=0, sjc_sample_2=0, inc_form_len=1, skip_form_len=1, pvalue=0.5, fdr=0.5)
        if kind == 'SE':
            rec = SERecord('G1', 'S', 'chr1', exons[1][0], exons[1][1], exons[0][0], exons[0][1], exons[2][0], exons[2][1],
                           5, 5, **tail)
            alt_tx = e1 + e3
        else:
            rec = RIRecord('G1', 'S', 'chr1', exons[0][0], exons[1][1], exons[0][0], exons[0][1], exons[1][0], exons[1][1],
                           5, 5, **tail)
            alt_tx = e1 + i1 + e2 + e3
        gvf = rec.convert_to_variant_records(anno, genome, 1, 1)
        if len(gvf) != 1:
            raise RuntimeError(f'expected one GVF record, got {len(gvf)}')
        self.record_type = gvf[0].type
        pool = VariantRecordPoolOnDisk(pointers={'T1': [_FakePointer(gvf)]}, gvf_files=[], anno=anno, genome=genome)
        series = pool['T1']
        tx_seqs = {'T1': anno.transcripts['T1'].get_transcript_sequence(genome['chr1'])}
        gene_seqs = {'G1': anno.genes['G1'].get_gene_sequence(genome['chr1'])}
        ref_prot = self.P1 + self.P2 + self.P3
        self.ref = {q for q, k in _digest(ref_prot)}
        self.deny = {Seq(q) for q in self.ref}
        real = svgraph.PeptideVariantGraph.call_variant_peptides

        def capture(pg, **kwargs):
            raise _Captured(pg, kwargs)

        p = CleavageParams(enzyme='trypsin', miscleavage=2, min_length=1, max_length=100, min_mw=0.)
        svgraph.PeptideVariantGraph.call_variant_peptides = capture
        try:
            cvp.call_peptide_main(tx_id='T1', tx_variants=series.transcriptional, variant_pool=pool, ref=_Ref(anno, genome),
                                  tx_seqs=tx_seqs, gene_seqs=gene_seqs, cleavage_params=p, max_adjacent_as_mnv=2,
                                  truncate_sec=False, w2f=False, denylist=self.deny, save_graph=False,
                                  coding_novel_orf=False)
            raise RuntimeError('call_variant_peptides was not reached')
        except _Captured as c:
            _order_sets(c.pgraph)
            self.graph, self.kwargs = c.pgraph, c.kwargs
        finally:
            svgraph.PeptideVariantGraph.call_variant_peptides = real
        self.alt_prot = _translate(alt_tx[len(UTR5):])
        self.cands = {(q, k) for q, k in _digest(self.alt_prot) if q and q not in self.ref}

    def run(self, misc, lo, hi):
        from crosshair.tracers import NoTracing
        with NoTracing():
            pg, kwargs = copy.deepcopy((self.graph, self.kwargs))
        pg.cleavage_params = CleavageParams(enzyme='trypsin', miscleavage=misc, min_length=lo, max_length=hi, min_mw=0.)
        return {str(s) for s in pg.call_variant_peptides(**kwargs)}

    def check(self, misc, lo, hi):
        got = self.run(misc, lo, hi)
        want = {q for q, k in self.cands if k <= misc and lo <= len(q) <= hi}
        if want - got:
            return -1
        if got - want:
            return -2
        return OK


CASE_SE = _Lazy(lambda: _SpliceCase('SE'))
CASE_RI = _Lazy(lambda: _SpliceCase('RI'))
ENC_SP = ['moPepGen.parser.RMATSParser.SERecord / RIRecord.convert_to_variant_records', 'moPepGen.seqvar.'
          'VariantRecordPoolOnDisk.VariantRecordPoolOnDisk.__getitem__ (to_transcript_variant, shift_deletion_up)',
          'moPepGen.cli.call_variant_peptide.call_peptide_main (graph construction: concrete, before the symbolic run)',
          'moPepGen.svgraph.PeptideVariantGraph.PeptideVariantGraph.call_variant_peptides', 'moPepGen.svgraph.VariantPeptideDict.*']
_BSP = ('ONE concrete 3-exon gene (+ strand); rMATS %s event converted by the real parser, the real pool conversion and the '
        'real call_peptide_main; canonical pool = digest of the annotated protein; miscleavage = %s, min_length and max_length '
        'UNBOUNDED symbolic integers')


def _mksp(name, case, what, misc, tiers):
    def f(lo: int, hi: int) -> int:
        """
        pre: 1 <= lo
        post: _ >= 0
        """
        return case.check(misc, lo, hi)
    f.__name__ = f.__qualname__ = name
    return cond('C16', bounds=_BSP % (what, misc), encodes=ENC_SP, stubs=STUBS + ['GVF pointers -> in-memory records'],
                codes={-1: 'a non-canonical digestion product of the alternative isoform (exon skipped / intron retained) is '
                           'not reported', -2: 'a reported peptide is not such a digestion product'},
                timeout=900, tiers=tiers)(f)


c16_se_peptides_0 = _mksp('c16_se_peptides_0', CASE_SE, 'SE (exon 2 skipped)', 0, ('quick', 'thorough'))
c16_se_peptides_1 = _mksp('c16_se_peptides_1', CASE_SE, 'SE (exon 2 skipped)', 1, ('quick', 'thorough'))
c16_ri_peptides_0 = _mksp('c16_ri_peptides_0', CASE_RI, 'RI (intron 1 retained)', 0, ('quick', 'thorough'))
c16_ri_peptides_1 = _mksp('c16_ri_peptides_1', CASE_RI, 'RI (intron 1 retained)', 1, ('quick', 'thorough'))
c16_ri_peptides_2 = _mksp('c16_ri_peptides_2', CASE_RI, 'RI (intron 1 retained)', 2, ('thorough',))


# --------------------------------------------------------------------------
# C03 / C01: stop-lost read-through - an in-frame deletion across the stop codon plus an SNV in the (open) 3'UTR
# --------------------------------------------------------------------------
class _StopLostCase:
    """CDS M A S T E D L V K A A D E G L V S T K | TAA | 3'UTR G H L R A A D L S G N E F R * (in frame, open).
    DEL: 3 nt removed across the K codon / stop codon boundary (AATA>A: the stop disappears, K stays);
    SNV: D>E in the 3'UTR (GAC>GAG).  Read-through peptides after the deletion: GHLR, AADLSGNEFR (AAELSGNEFR with the SNV)."""
    PROT = 'MASTEDLVKAADEGLVSTK'
    UTR3P = 'GHLRAADLSGNEFR'

    def __init__(self, utr_records=True, variants=None):
        import sys
        from moPepGen import dna, svgraph
        from mpgverif.harness.annobuild import anno_one_gene
        import moPepGen.cli.call_variant_peptide  # noqa: F401
        cvp = sys.modules['moPepGen.cli.call_variant_peptide']
        self.cds = ''.join(CODON[a] for a in self.PROT)
        utr3 = ''.join(CODON[a] for a in self.UTR3P) + 'TAAGC'
        self.tx = UTR5 + self.cds + 'TAA' + utr3
        cs = len(UTR5)
        ce = cs + len(self.cds)
        d = ce - 2                      # anchor = 2nd base of the last codon (AAA); deletes its 3rd base and 'TA' of the stop
        snv = ce + 3 + 3 * self.UTR3P.index('D') + 2
        self.vars = [(d, self.tx[d:d + 4], self.tx[d]), (snv, 'C', 'G')]
        assert self.tx[d:d + 4] == 'AATA' and self.tx[snv] == 'C', (self.tx[d:d + 4], self.tx[snv])
        if variants is not None:
            self.vars = [(ce + o, r, a) for o, r, a in variants]      # offsets relative to the stop codon
            for p_, r_, a_ in self.vars:
                assert self.tx[p_:p_ + len(r_)] == r_, (p_, r_, self.tx[p_:p_ + len(r_)])
        # GENCODE convention: the 3'UTR record starts at the stop codon, so the known ORF ends where the stop codon starts
        # utr_records False: an annotation with exon and CDS rows only
        anno = anno_one_gene(0, len(self.tx), 1, [(0, len(self.tx))], cds=[(cs, ce)],
                             three_utr=[(ce, len(self.tx))] if utr_records else [])
        genome = dna.DNASeqDict({'chr1': dna.DNASeqRecord(Seq(self.tx), id='chr1', name='chr1', description='chr1')})
        tx_seqs = {'T1': anno.transcripts['T1'].get_transcript_sequence(genome['chr1'])}
        recs = []
        self.ids = {}
        for p, r, a in self.vars:
            typ = 'SNV' if len(r) == len(a) == 1 else 'INDEL'
            vid = f'{typ}-{p + 1}-{r}-{a}'
            self.ids[vid] = (p, r, a)
            recs.append(VariantRecord(location=FeatureLocation(seqname='T1', start=p, end=p + len(r)), ref=r, alt=a,
                                      _type=typ, _id=vid, attrs={'GENE_ID': 'G1', 'TRANSCRIPT_ID': 'T1'}))
        self.ref = {q for q, k in _digest(_translate(self.tx[cs:]))}
        self.deny = {Seq(q) for q in self.ref}
        real = svgraph.PeptideVariantGraph.call_variant_peptides

        def capture(pg, **kwargs):
            raise _Captured(pg, kwargs)

        p = CleavageParams(enzyme='trypsin', miscleavage=2, min_length=1, max_length=100, min_mw=0.)
        svgraph.PeptideVariantGraph.call_variant_peptides = capture
        try:
            cvp.call_peptide_main(tx_id='T1', tx_variants=recs, variant_pool=_Pool(), ref=_Ref(anno, genome),
                                  tx_seqs=tx_seqs, gene_seqs={}, cleavage_params=p, max_adjacent_as_mnv=2,
                                  truncate_sec=False, w2f=False, denylist=self.deny, save_graph=False,
                                  coding_novel_orf=False)
            raise RuntimeError('call_variant_peptides was not reached')
        except _Captured as c:
            _order_sets(c.pgraph)
            self.graph, self.kwargs = c.pgraph, c.kwargs
        finally:
            svgraph.PeptideVariantGraph.call_variant_peptides = real
        self.cands = set()
        for n in (1, 2):
            for sub in itertools.combinations(self.vars, n):
                self.cands |= _digest(_translate(self._apply(sub)[cs:]))
        self.cands = {(q, k) for q, k in self.cands if q and q not in self.ref}

    def _apply(self, sub):
        s = self.tx
        for p, r, a in sorted(sub, reverse=True):
            s = s[:p] + a + s[p + len(r):]
        return s

    def run(self, misc, lo, hi):
        from crosshair.tracers import NoTracing
        with NoTracing():
            pg, kwargs = copy.deepcopy((self.graph, self.kwargs))
        pg.cleavage_params = CleavageParams(enzyme='trypsin', miscleavage=misc, min_length=lo, max_length=hi, min_mw=0.)
        return pg.call_variant_peptides(**kwargs)

    def check(self, misc, lo, hi):
        got = {str(s) for s in self.run(misc, lo, hi)}
        want = {q for q, k in self.cands if k <= misc and lo <= len(q) <= hi}
        if want - got:
            return -1
        if got - want:
            return -4
        return OK

    def headers(self, misc, lo, hi):
        res = self.run(misc, lo, hi)
        seen = set()
        n = 0
        for seq, labels in res.items():
            for lab in labels:
                n += 1
                if lab.label in seen:
                    return -4
                seen.add(lab.label)
                parts = lab.label.split('|')
                if parts[0] != 'T1' or not parts[-1].isdigit():
                    return -1
                ids = parts[1:-1]
                if not ids or any(i not in self.ids for i in ids) or len(set(ids)) != len(ids):
                    return -2
                s = self._apply([self.ids[i] for i in ids])
                prods = {q for q, k in _digest(_translate(s[len(UTR5):])) if k <= misc}
                if str(seq) not in prods:
                    return -3
        return OK if n else SKIP


CASE_SL = _Lazy(_StopLostCase)
_BSL = ("ONE concrete transcript (19 codons + an open in-frame 3'UTR, GENCODE convention: the UTR record starts at the stop "
        'codon) with an in-frame deletion across the stop codon and an SNV in the 3\'UTR; miscleavage = %s, min_length and '
        'max_length UNBOUNDED symbolic integers')


def _mksl(prop, name, what, misc, tiers):
    def f(lo: int, hi: int) -> int:
        """
        pre: 1 <= lo
        post: _ >= 0
        """
        return getattr(CASE_SL, what)(misc, lo, hi)
    f.__name__ = f.__qualname__ = name
    return cond(prop, bounds=_BSL % misc, encodes=ENC_SV, stubs=STUBS + ['variant pool -> stand-in without further variants'],
                codes=CODES_H if what == 'headers' else CODES, timeout=900, tiers=tiers)(f)


c03_stop_lost_headers_1 = _mksl('C03', 'c03_stop_lost_headers_1', 'headers', 1, ('quick', 'thorough'))
c01_stop_lost_traversal_1 = _mksl('C01', 'c01_stop_lost_traversal_1', 'check', 1, ('quick', 'thorough'))
c03_stop_lost_headers_2 = _mksl('C03', 'c03_stop_lost_headers_2', 'headers', 2, ('thorough',))

CASE_SL_NOUTR = _Lazy(lambda: _StopLostCase(utr_records=False))
_BSLN = ("ONE concrete transcript (19 codons + an open in-frame 3' region) annotated with exon and CDS records only (NO UTR "
         "records), in-frame deletion across the stop codon and an SNV downstream; miscleavage = %s, min_length and max_length "
         'UNBOUNDED symbolic integers')


def _mksln(prop, name, what, misc, tiers):
    def f(lo: int, hi: int) -> int:
        """
        pre: 1 <= lo
        post: _ >= 0
        """
        return getattr(CASE_SL_NOUTR, what)(misc, lo, hi)
    f.__name__ = f.__qualname__ = name
    return cond(prop, bounds=_BSLN % misc, encodes=ENC_SV + ['moPepGen.gtf.TranscriptAnnotationModel.get_cds_end_index'],
                stubs=STUBS + ['variant pool -> stand-in without further variants'],
                codes=CODES_H if what == 'headers' else CODES, timeout=900, tiers=tiers)(f)


c03_stop_lost_headers_no_utr_1 = _mksln('C03', 'c03_stop_lost_headers_no_utr_1', 'headers', 1, ('quick', 'thorough'))
c01_stop_lost_traversal_no_utr_1 = _mksln('C01', 'c01_stop_lost_traversal_no_utr_1', 'check', 1, ('quick', 'thorough'))


# --------------------------------------------------------------------------
# C03: two frameshifting indels on one transcript; a variant that removes a stop codon of the SHIFTED frame
# --------------------------------------------------------------------------
# +2 insertion and -1 deletion, 20 nt apart: everything after the second one depends on both
CASE_FS2 = _Lazy(lambda: _Case('MASTEDLVKAADEGLVSTKGGHLRVVLIDEFYAK', [(40, 'G', 'GAG'), (62, 'TC', 'T')]))
c03_headers_two_frameshifts_1 = _mkh('c03_headers_two_frameshifts_1', CASE_FS2, 'a +2 insertion and a -1 deletion 20 nt apart', 1,
                                     ('quick', 'thorough'))
# a -2 deletion opens a shifted frame that stops after 10 residues; an SNV 5 nt further removes that stop codon
CASE_SHIFTED_STOP = _Lazy(lambda: _Case('MASTEDLVKAADEGLVSTKGGHLRVVLIDEFYAK', [(29, 'TGC', 'T'), (34, 'A', 'T')]))


def _known_shifted_stop(lo: int, hi: int) -> int:
    """
    pre: 1 <= lo
    post: _ >= 0
    """
    return _headers(CASE_SHIFTED_STOP, 1, lo, hi)


_known_shifted_stop.__name__ = _known_shifted_stop.__qualname__ = 'c03_headers_shifted_frame_stop_lost'
c03_headers_shifted_frame_stop_lost = cond(
    'C03', bounds='KNOWN FINDING CLASS: ONE concrete transcript with a frameshifting deletion and, in the shifted frame, an SNV that '
    'removes the stop codon ending that frame; miscleavage = 1, min_length and max_length UNBOUNDED symbolic integers',
    encodes=ENC, stubs=STUBS, codes=CODES_H, timeout=900, expect='refuted-known')(_known_shifted_stop)


# fusion into an acceptor tagged mRNA_end_NF (its model ends inside the CDS): the open-ended last fragment is not reported
CASE_F_NF = _Lazy(lambda: _FusionCase(13, 6, end_nf=True))
c15_fusion_traversal_endnf_0 = _mkf('c15_fusion_traversal_endnf_0', CASE_F_NF, 'in frame; acceptor tagged mRNA_end_NF (no stop codon)',
                                    0, ('quick', 'thorough'))


def _c02_endnf(lo: int, hi: int) -> int:
    """
    pre: 1 <= lo
    post: _ >= 0
    """
    return CASE_F_NF.check(1, lo, hi)


_c02_endnf.__name__ = _c02_endnf.__qualname__ = 'c02_fusion_traversal_endnf_1'
c02_fusion_traversal_endnf_1 = cond(
    'C02', bounds=_BF % ('in frame; acceptor tagged mRNA_end_NF (its model ends inside the CDS, no stop codon)', 1),
    encodes=ENC_F, stubs=STUBS + ['variant pool -> stand-in without further variants'], codes=CODES_F, timeout=900)(_c02_endnf)


# stop-lost by an SNV on the FIRST nucleotide of the stop codon (TAA>CAA) plus a downstream SNV
CASE_SL_SNV1 = _Lazy(lambda: _StopLostCase(variants=[(0, 'T', 'C'), (3 + 3 * 6 + 2, 'C', 'G')]))


def _sl_snv1(lo: int, hi: int) -> int:
    """
    pre: 1 <= lo
    post: _ >= 0
    """
    r = CASE_SL_SNV1.check(1, lo, hi)
    if r != OK:
        return r
    h = CASE_SL_SNV1.headers(1, lo, hi)
    return OK if h in (OK, SKIP) else h - 10


_sl_snv1.__name__ = _sl_snv1.__qualname__ = 'c01_stop_lost_first_base_1'
c01_stop_lost_first_base_1 = cond(
    'C01', bounds=("ONE concrete transcript (19 codons + an open in-frame 3'UTR, GENCODE convention) with an SNV on the FIRST "
                   'nucleotide of the stop codon (TAA>CAA) and an SNV in the 3\'UTR; peptide set and header entries; '
                   'miscleavage = 1, min_length and max_length UNBOUNDED symbolic integers'),
    encodes=ENC_SV, stubs=STUBS + ['variant pool -> stand-in without further variants'],
    codes={-1: CODES[-1], -4: CODES[-4], -11: CODES_H[-1], -12: CODES_H[-2], -13: CODES_H[-3], -14: CODES_H[-4]},
    timeout=900)(_sl_snv1)
