"""C04 / C05, traversal stage on CONCRETE graphs with SYMBOLIC limits.

The peptide graph of a small concrete transcript with concrete variants is built once, outside the symbolic
run, by the real pipeline (ThreeFrameTVG.create_variant_graph -> fit_into_codons -> translate ->
create_cleavage_graph).  The real PeptideVariantGraph.call_variant_peptides is then executed with
miscleavage, min_length and max_length as symbolic integers (length limits UNBOUNDED): the solver decides, for every
value of the three limits, that the peptides reported are exactly the definitional ones - digest every haplotype
protein with a 10-line trypsin rule, keep what has <= miscleavage missed sites and a length within the limits
(N-terminal M removed form included), drop the digestion products of the unmodified protein.

What this is not: the graphs are two fixed examples; nothing is claimed for other transcripts or variants."""
import copy
import itertools

from Bio.Seq import Seq

from moPepGen.SeqFeature import FeatureLocation, MatchedLocation
from moPepGen.dna import DNASeqRecordWithCoordinates
from moPepGen.params import CleavageParams
from moPepGen.seqvar.VariantRecord import VariantRecord
from moPepGen.svgraph.ThreeFrameTVG import ThreeFrameTVG
from mpgverif.hlib import OK, SKIP, concretize, cond

USE_SHIM = True
USE_TOKENS = False

UTR5 = 'GCTAGCTTGACC'
UTR3 = 'GCCTCCTGACTCC'
CODON = {'A': 'GCT', 'S': 'TCT', 'T': 'ACT', 'E': 'GAA', 'D': 'GAC', 'L': 'CTG', 'V': 'GTT', 'G': 'GGT', 'H': 'CAC',
         'I': 'ATC', 'Q': 'CAG', 'N': 'AAC', 'K': 'AAA', 'R': 'CGT', 'M': 'ATG', 'F': 'TTC', 'Y': 'TAC', 'C': 'TGC'}
TABLE = {v: k for k, v in CODON.items()}


def _translate(dna):
    """independent of Biopython: the codons used here plus every single-base neighbour that occurs"""
    from Bio.Data import CodonTable
    fwd = CodonTable.unambiguous_dna_by_id[1].forward_table
    out = []
    for i in range(0, len(dna) - len(dna) % 3, 3):
        c = dna[i:i + 3]
        if c in ('TAA', 'TAG', 'TGA'):
            break
        out.append(fwd[c])
    return ''.join(out)


def _digest(prot):
    """(peptide, missed sites, is N-terminal) for trypsin: cut after K/R unless followed by P"""
    sites = [0] + [i + 1 for i in range(len(prot) - 1) if prot[i] in 'KR' and prot[i + 1] != 'P']
    sites.append(len(prot))
    out = set()
    for a in range(len(sites) - 1):
        for b in range(a + 1, len(sites)):
            pep = prot[sites[a]:sites[b]]
            out.add((pep, b - a - 1))
            if a == 0 and pep.startswith('M'):
                out.add((pep[1:], b - a - 1))
    return out


class _OrdSet(set):
    """environment model of an unordered set: iteration order = serial order of the members, reversed when the
    flag of this set is on.  Python leaves the order unspecified (PVGNode hashes by address), so every order is a
    legitimate behaviour of the environment; the flags are symbolic in c06_traversal_set_order."""
    FLAGS = []

    def __iter__(self):
        items = sorted(set.__iter__(self), key=lambda n: getattr(n, '_serial', 10 ** 9))
        k = getattr(self, '_k', 0)
        if len(items) > 1 and _OrdSet.FLAGS and _OrdSet.FLAGS[k % len(_OrdSet.FLAGS)]:
            items.reverse()
        return iter(items)

    def __reduce_ex__(self, proto):
        return (_ordset_rebuild, (list(set.__iter__(self)), getattr(self, '_k', 0)))

    def copy(self):
        return _ordset_rebuild(list(set.__iter__(self)), getattr(self, '_k', 0))


def _ordset_rebuild(items, k):
    s = _OrdSet(items)
    s._k = k
    return s


def _order_sets(pg):
    """give every node a serial number (deterministic walk) and turn its edge sets into _OrdSet"""
    seen, order, stack = set(), [], [pg.root]
    while stack:
        n = stack.pop()
        if id(n) in seen:
            continue
        seen.add(id(n))
        order.append(n)
        nxt = sorted(n.out_nodes, key=lambda m: (str(m.seq.seq) if m.seq is not None else '', m.reading_frame_index,
                                                 sorted(v.variant.id for v in m.variants)))
        stack.extend(reversed(nxt))
    for i, n in enumerate(order):
        n._serial = i
    for i, n in enumerate(order):
        n.out_nodes = _ordset_rebuild(list(n.out_nodes), i)
        n.in_nodes = _ordset_rebuild(list(n.in_nodes), i + 3)
    return len(order)


class _Case:
    def __init__(self, protein, variants, extra_canonical=(), collapse=(30, 5)):
        """variants: (cds offset, ref, alt); extra_canonical: peptides of OTHER proteins in the canonical pool;
        collapse: (--min-nodes-to-collapse, --naa-to-collapse) used when the cleavage graph is built"""
        self.collapse = collapse
        self.cds = ''.join(CODON[a] for a in protein)
        self.tx = UTR5 + self.cds + 'TAA' + UTR3
        self.vars = [(len(UTR5) + o, r, a) for o, r, a in variants]
        for p, r, a in self.vars:
            assert self.tx[p:p + len(r)] == r and r != a, (p, r, self.tx[p:p + len(r)])
        self.graph = self._build()
        ref = _digest(_translate(self.tx[len(UTR5):]))
        self.ref = {p for p, k in ref} | set(extra_canonical)
        self.cands = set()
        for n in range(1, len(self.vars) + 1):
            for sub in itertools.combinations(self.vars, n):
                if any(sub[i][0] + len(sub[i][1]) > sub[i + 1][0] for i in range(len(sub) - 1)):
                    continue
                s = self.tx
                for p, r, a in sorted(sub, reverse=True):
                    s = s[:p] + a + s[p + len(r):]
                self.cands |= _digest(_translate(s[len(UTR5):]))
        self.cands = {(p, k) for p, k in self.cands if p not in self.ref and p}
        self.deny = {Seq(p) for p in self.ref}

    def _build(self):
        recs = []
        for p, r, a in self.vars:
            typ = 'SNV' if len(r) == len(a) == 1 else 'INDEL'
            recs.append(VariantRecord(location=FeatureLocation(seqname='T1', start=p, end=p + len(r)), ref=r, alt=a,
                                      _type=typ, _id=f'{typ}-{p + 1}-{r}-{a}',
                                      attrs={'GENE_ID': 'G1', 'TRANSCRIPT_ID': 'T1'}))
        recs.sort()
        orf = FeatureLocation(start=len(UTR5), end=len(UTR5) + len(self.cds) + 3)
        loc = MatchedLocation(query=FeatureLocation(start=0, end=len(self.tx)),
                              ref=FeatureLocation(seqname='T1', start=0, end=len(self.tx)))
        seq = DNASeqRecordWithCoordinates(seq=Seq(self.tx), locations=[loc], orf=orf)
        p = CleavageParams(enzyme='trypsin', miscleavage=2, min_length=1, max_length=100, min_mw=0.,
                           min_nodes_to_collapse=self.collapse[0], naa_to_collapse=self.collapse[1])
        g = ThreeFrameTVG(seq=seq, _id='T1', has_known_orf=True, cleavage_params=p, max_adjacent_as_mnv=2,
                          coordinate_feature_type='transcript', coordinate_feature_id='T1')
        g.init_three_frames()
        g.create_variant_graph(recs, None, None, None)
        g.fit_into_codons()
        pg = g.translate()
        pg.create_cleavage_graph()
        self.n_nodes = _order_sets(pg)
        return pg

    def run(self, misc, lo, hi):
        from crosshair.tracers import NoTracing
        with NoTracing():
            pg = copy.deepcopy(self.graph)      # concrete data only: copied outside the symbolic tracer
        pg.cleavage_params = CleavageParams(enzyme='trypsin', miscleavage=misc, min_length=lo, max_length=hi,
                                            min_mw=0., min_nodes_to_collapse=self.collapse[0],
                                            naa_to_collapse=self.collapse[1])
        res = pg.call_variant_peptides(denylist=self.deny, truncate_sec=False, w2f=False,
                                       check_external_variants=True, check_orf=False)
        return {str(s) for s in res}

    def check(self, misc, lo, hi):
        got = self.run(misc, lo, hi)
        want = {p for p, k in self.cands if k <= misc and lo <= len(p) <= hi}
        if want - got:
            return -1
        if got - want:
            for p in got - want:
                if p in self.ref:
                    return -2
                if not lo <= len(p) <= hi:
                    return -3
            return -4
        return OK


CODES = {-1: 'a definitional variant peptide within the limits is not reported by the traversal',
         -2: 'a digestion product of the unmodified protein (canonical peptide) is reported',
         -3: 'a reported peptide violates the length limits',
         -4: 'a reported peptide is not a digestion product of any haplotype within the miscleavage limit'}
ENC = ['moPepGen.svgraph.PeptideVariantGraph.PeptideVariantGraph.call_variant_peptides / call_and_stage_known_orf* / '
       'PVGTraversal.stage', 'moPepGen.svgraph.VariantPeptideDict.VariantPeptideDict.add_miscleaved_sequences / '
       'find_miscleaved_nodes / MiscleavedNodes.join_miscleaved_peptides / translational_modification / '
       'get_peptide_sequences']
STUBS = ['graph built concretely by the real pipeline before the symbolic run (not part of the symbolic claim)',
         'min_mw = 0']

# MASTEDLVK | AADEGLVSTK | GGHLR | VVLIDEFYAK ; SNV E->V in peptide 1 (GAA->GTA), SNV D->E in peptide 2 (GAC->GAG)
# 'ASTVDLVK' (the M-removed variant form of peptide 1) is canonical through another protein: only 'MASTEVLVK' is owed
CASE_A = _Case('MASTEDLVKAADEGLVSTKGGHLRVVLIDEFYAK', [(4 * 3 + 1, 'A', 'T'), (11 * 3 + 2, 'C', 'G')],
               extra_canonical=['ASTVDLVK'])
# K->N removes a cleavage site (AAA->AAC) in peptide 1; in-frame deletion of one codon in peptide 3
CASE_B = _Case('MASTEDLVKAADEGLVSTKGGHLRVVLIDEFYAK', [(8 * 3 + 2, 'A', 'C'), (19 * 3 + 2, 'TGGT', 'T')])

# three SNVs inside peptide 2 (8 forms of it) with --min-nodes-to-collapse 3 --naa-to-collapse 3: the bubble is pop-collapsed
CASE_C = _Case('MASTEDLVKAADEGLVSTKGGHLRVVLIDEFYAK', [(11 * 3 + 2, 'C', 'G'), (13 * 3 + 1, 'G', 'C'), (16 * 3 + 1, 'C', 'A')],
               collapse=(3, 3))

_BA = ('ONE concrete transcript (34 codons, 4 tryptic peptides) with 2 concrete SNVs; miscleavage = %s, min_length and '
       'max_length UNBOUNDED symbolic integers')
_BB = ('ONE concrete transcript (34 codons, 4 tryptic peptides) with a cleavage-site-removing SNV and an in-frame deletion; '
       'miscleavage = %s, min_length and max_length UNBOUNDED symbolic integers')


def _mk(prop, case, name, misc, bounds, tiers):
    def f(lo: int, hi: int) -> int:
        """
        pre: 1 <= lo
        post: _ >= 0
        """
        return case.check(misc, lo, hi)
    f.__name__ = f.__qualname__ = name
    return cond(prop, bounds=bounds % misc, encodes=ENC, stubs=STUBS, codes=CODES, timeout=900, tiers=tiers)(f)


c05_traversal_limits_a0 = _mk('C05', CASE_A, 'c05_traversal_limits_a0', 0, _BA, ('quick', 'thorough'))
c05_traversal_limits_a1 = _mk('C05', CASE_A, 'c05_traversal_limits_a1', 1, _BA, ('quick', 'thorough'))
c05_traversal_limits_a2 = _mk('C05', CASE_A, 'c05_traversal_limits_a2', 2, _BA, ('quick', 'thorough'))
c05_traversal_limits_a3 = _mk('C05', CASE_A, 'c05_traversal_limits_a3', 3, _BA, ('thorough',))
c04_traversal_limits_b0 = _mk('C04', CASE_B, 'c04_traversal_limits_b0', 0, _BB, ('quick', 'thorough'))
c04_traversal_limits_b1 = _mk('C04', CASE_B, 'c04_traversal_limits_b1', 1, _BB, ('quick', 'thorough'))
c04_traversal_limits_b2 = _mk('C04', CASE_B, 'c04_traversal_limits_b2', 2, _BB, ('thorough',))
c04_traversal_limits_b3 = _mk('C04', CASE_B, 'c04_traversal_limits_b3', 3, _BB, ('thorough',))


_BC = ('ONE concrete transcript (34 codons) with 3 concrete SNVs inside one tryptic peptide, cleavage graph built with '
       '--min-nodes-to-collapse 3 --naa-to-collapse 3 (12 pop-collapsed nodes); miscleavage = %s, min_length and max_length '
       'UNBOUNDED symbolic integers')
c02_traversal_limits_c0 = _mk('C02', CASE_C, 'c02_traversal_limits_c0', 0, _BC, ('quick', 'thorough'))
c02_traversal_limits_c1 = _mk('C02', CASE_C, 'c02_traversal_limits_c1', 1, _BC, ('quick', 'thorough'))
c02_traversal_limits_c2 = _mk('C02', CASE_C, 'c02_traversal_limits_c2', 2, _BC, ('thorough',))


def _set_order(case, flags):
    """same limits, every iteration order of the edge sets selected by the flags"""
    _OrdSet.FLAGS = list(flags)
    try:
        return case.check(2, 1, 100)
    finally:
        _OrdSet.FLAGS = []


CODES_O = dict(CODES)
CODES_O[-1] = 'for some iteration order of the node sets a definitional variant peptide is not reported'
_BO = ('%s; limits fixed (miscleavage 2, length 1..100); the iteration order of every edge set of the peptide graph '
       '(in Python: decided by object addresses / the hash seed) is direct or reversed according to 6 symbolic flags')


@cond('C06', bounds=_BO % 'concrete transcript with 2 SNVs', encodes=ENC, codes=CODES_O, timeout=600,
      stubs=STUBS + ['set iteration order of PVGNode.in_nodes / out_nodes -> chosen by symbolic flags'])
def c06_traversal_set_order_a(f0: bool, f1: bool, f2: bool, f3: bool, f4: bool, f5: bool) -> int:
    """
    post: _ >= 0
    """
    return _set_order(CASE_A, [f0, f1, f2, f3, f4, f5])


@cond('C06', bounds=_BO % 'concrete transcript with a site-removing SNV and an in-frame deletion', encodes=ENC,
      codes=CODES_O, timeout=600,
      stubs=STUBS + ['set iteration order of PVGNode.in_nodes / out_nodes -> chosen by symbolic flags'])
def c06_traversal_set_order_b(f0: bool, f1: bool, f2: bool, f3: bool, f4: bool, f5: bool) -> int:
    """
    post: _ >= 0
    """
    return _set_order(CASE_B, [f0, f1, f2, f3, f4, f5])


# --------------------------------------------------------------------------
# C08: callNovelORF traversal of a concrete non-coding transcript, symbolic limits
# --------------------------------------------------------------------------
class _NovelCase:
    def __init__(self, tx, canonical=()):
        self.tx = tx
        self.ref = set(canonical)
        self.deny = {Seq(p) for p in self.ref}
        self.graph = self._build()
        self.cands = set()
        self.orfs = []
        for f in range(3):
            prot = self._translate_all(tx[f:])
            for i, a in enumerate(prot):
                if a != 'M':
                    continue
                j = prot.find('*', i)
                orf = prot[i:] if j == -1 else prot[i:j]
                self.orfs.append((f + 3 * i, orf))
                self.cands |= _digest(orf)
        self.cands = {(p, k) for p, k in self.cands if p and p not in self.ref}

    @staticmethod
    def _translate_all(dna):
        from Bio.Data import CodonTable
        fwd = CodonTable.unambiguous_dna_by_id[1].forward_table
        return ''.join(fwd.get(dna[i:i + 3], '*') for i in range(0, len(dna) - len(dna) % 3, 3))

    def _build(self):
        loc = MatchedLocation(query=FeatureLocation(start=0, end=len(self.tx)),
                              ref=FeatureLocation(seqname='T1', start=0, end=len(self.tx)))
        seq = DNASeqRecordWithCoordinates(seq=Seq(self.tx), locations=[loc], orf=None)
        p = CleavageParams(enzyme='trypsin', miscleavage=2, min_length=1, max_length=100, min_mw=0.)
        g = ThreeFrameTVG(seq=seq, _id='T1', cds_start_nf=True, has_known_orf=False, cleavage_params=p, gene_id='G1',
                          coordinate_feature_type='transcript', coordinate_feature_id='T1')
        g.init_three_frames()
        pg = g.translate()
        pg.create_cleavage_graph()
        self.n_nodes = _order_sets(pg)
        return pg

    def run(self, misc, lo, hi):
        from crosshair.tracers import NoTracing
        with NoTracing():
            pg = copy.deepcopy(self.graph)
        pg.cleavage_params = CleavageParams(enzyme='trypsin', miscleavage=misc, min_length=lo, max_length=hi, min_mw=0.)
        res = pg.call_variant_peptides(check_variants=False, check_orf=True, denylist=self.deny, orf_assignment='max',
                                       w2f=False, check_external_variants=False)
        return {str(s) for s in res}, pg

    def check(self, misc, lo, hi):
        got, pg = self.run(misc, lo, hi)
        want = {p for p, k in self.cands if k <= misc and lo <= len(p) <= hi}
        if want - got:
            return -1
        if got - want:
            for p in got - want:
                if p in self.ref:
                    return -2
                if not lo <= len(p) <= hi:
                    return -3
            return -4
        return OK


CODES_N = {-1: 'a digestion product of some ATG-to-stop ORF (any frame) within the limits is not reported',
           -2: 'a canonical peptide is reported', -3: 'a reported peptide violates the length limits',
           -4: 'a reported peptide is not a digestion product of any ATG-to-stop ORF within the miscleavage limit'}
# frame 0: M A S K M L D E R G H L K * ...   frame 1 has an ORF running to the transcript end
_TXN = ('ATGGCTTCTAAAATGCTGGACGAACGTGGTCACCTGAAATAA' 'C' 'ATGACTGAAGTTCGTGCTGCTGACAAAGGTGGT')
CASE_N = _NovelCase(_TXN, canonical=['GHLK', 'ASK'])   # 'ASK' = M-removed first peptide: 'MASK' is still owed
_BN = ('ONE concrete non-coding transcript (76 nt; nested ATGs, an ORF ending at a stop and one running to the transcript '
       'end; two canonical peptides in the pool, one of them the M-removed form of the first peptide of an ORF); miscleavage = %s, min_length and max_length UNBOUNDED symbolic integers')
ENC_N = ['moPepGen.svgraph.PeptideVariantGraph.PeptideVariantGraph.call_variant_peptides / call_and_stage_unknown_orf / '
         'PVGTraversal.stage', 'moPepGen.svgraph.VariantPeptideDict.VariantPeptideDict.add_miscleaved_sequences / '
         'find_miscleaved_nodes / MiscleavedNodes.join_miscleaved_peptides / translational_modification']


def _mkn(name, misc, tiers):
    def f(lo: int, hi: int) -> int:
        """
        pre: 1 <= lo
        post: _ >= 0
        """
        return CASE_N.check(misc, lo, hi)
    f.__name__ = f.__qualname__ = name
    return cond('C08', bounds=_BN % misc, encodes=ENC_N, stubs=STUBS, codes=CODES_N, timeout=900, tiers=tiers)(f)


c08_traversal_limits_0 = _mkn('c08_traversal_limits_0', 0, ('quick', 'thorough'))
c08_traversal_limits_1 = _mkn('c08_traversal_limits_1', 1, ('quick', 'thorough'))
c08_traversal_limits_2 = _mkn('c08_traversal_limits_2', 2, ('thorough',))


# --------------------------------------------------------------------------
# C09: callAltTranslation on a concrete selenoprotein transcript, symbolic limits, every flag combination
# --------------------------------------------------------------------------
class _Captured(Exception):
    def __init__(self, pgraph, kwargs):
        super().__init__('captured')
        self.pgraph, self.kwargs = pgraph, kwargs


class _AltCase:
    """M A S W K | A A U D E W L K | G G W H L R | V V K ; U = annotated selenocysteine (TGA)"""
    PROT = 'MASWKAAUDEWLKGGWHLRVVK'

    def __init__(self):
        import sys
        from moPepGen import dna, svgraph
        from mpgverif.harness.annobuild import anno_one_gene
        import moPepGen.cli.call_alt_translation  # noqa: F401
        cat = sys.modules['moPepGen.cli.call_alt_translation']
        codon = dict(CODON)
        codon.update({'W': 'TGG', 'U': 'TGA'})
        self.cds = ''.join(codon[a] for a in self.PROT)
        self.tx = UTR5 + self.cds + 'TAA' + UTR3
        cs = len(UTR5)
        ce = cs + len(self.cds) + 3
        u = cs + 3 * self.PROT.index('U')
        anno = anno_one_gene(0, len(self.tx), 1, [(0, len(self.tx))], cds=[(cs, ce - 3)], sec=[(u, u + 3)],
                             three_utr=[(ce, len(self.tx))])
        genome = dna.DNASeqDict({'chr1': dna.DNASeqRecord(Seq(self.tx), id='chr1', name='chr1', description='chr1')})
        self.graphs = {}
        real = svgraph.PeptideVariantGraph.call_variant_peptides

        def capture(pg, **kwargs):
            raise _Captured(pg, kwargs)

        for sect, w2f in ((True, False), (False, True), (True, True)):
            p = CleavageParams(enzyme='trypsin', miscleavage=2, min_length=1, max_length=100, min_mw=0.)
            svgraph.PeptideVariantGraph.call_variant_peptides = capture
            try:
                cat.call_alt_translation_main(tx_id='T1', tx_model=anno.transcripts['T1'], genome=genome, anno=anno,
                                              cleavage_params=p, w2f_reassignment=w2f, sec_truncation=sect)
                raise RuntimeError('call_variant_peptides was not reached')
            except _Captured as c:
                _order_sets(c.pgraph)
                self.graphs[(sect, w2f)] = (c.pgraph, c.kwargs)
            finally:
                svgraph.PeptideVariantGraph.call_variant_peptides = real
        full = _digest(self.PROT)
        trunc = _digest(self.PROT[:self.PROT.index('U')])
        self.base = {p for p, k in full}
        self.sect = {(p, k) for p, k in trunc if p and p not in self.base}

    @staticmethod
    def _w2f_forms(items):
        out = set()
        for p, k in items:
            ws = [i for i, a in enumerate(p) if a == 'W']
            for n in range(1, len(ws) + 1):
                for comb in itertools.combinations(ws, n):
                    q = list(p)
                    for i in comb:
                        q[i] = 'F'
                    out.add((''.join(q), k))
        return out

    def want(self, sect, w2f, misc, lo, hi):
        full = {(p, k) for p, k in _digest(self.PROT) if p}
        items = set()
        if sect:
            items |= self.sect
        if w2f:
            items |= self._w2f_forms(full)
            if sect:
                items |= self._w2f_forms(self.sect)
        return {p for p, k in items if k <= misc and lo <= len(p) <= hi and p not in self.base}

    def run(self, sect, w2f, misc, lo, hi):
        from crosshair.tracers import NoTracing
        with NoTracing():
            pg, kwargs = copy.deepcopy(self.graphs[(sect, w2f)])
        pg.cleavage_params = CleavageParams(enzyme='trypsin', miscleavage=misc, min_length=lo, max_length=hi, min_mw=0.)
        res = pg.call_variant_peptides(**kwargs)
        return res

    def check(self, sect, w2f, misc, lo, hi):
        res = self.run(sect, w2f, misc, lo, hi)
        got = {str(s) for s in res}
        want = self.want(sect, w2f, misc, lo, hi)
        if want - got:
            return -1
        if got - want:
            return -2
        for s, labels in res.items():
            for lab in labels:
                ids = lab.label.split('|')[1:-1]
                kinds = {i.split('-')[0] for i in ids}
                if not ids or not kinds <= {'SECT', 'W2F'}:
                    return -3
                if ('SECT' in kinds and not sect) or ('W2F' in kinds and not w2f):
                    return -3
                nf = len([i for i in ids if i.startswith('W2F')])
                if nf > str(s).count('F'):
                    return -3
        return OK


CODES_ALT = {-1: 'a peptide that arises only through the requested Sec termination / W>F substitution is not reported',
             -2: 'a reported peptide does not arise through the requested alternative translation events (or is a regular '
                 'digestion product, or violates the limits)',
             -3: 'a header names no SECT / W2F event, an event kind that was not requested, or more W>F events than '
                 'the peptide has F residues'}
ENC_ALT = ['moPepGen.cli.call_alt_translation.call_alt_translation_main (graph construction: concrete, before the symbolic '
           'run; flag plumbing into the traversal: captured from the real call)',
           'moPepGen.svgraph.PeptideVariantGraph.PeptideVariantGraph.call_variant_peptides / call_and_stage_known_orf*',
           'moPepGen.svgraph.VariantPeptideDict.MiscleavedNodes.join_miscleaved_peptides / translational_modification',
           'moPepGen.svgraph.VariantPeptideDict.VariantPeptideDict.translational_modification / find_codon_reassignments']
_BALT = ('ONE concrete selenoprotein transcript (22 codons: 4 tryptic peptides, one annotated Sec codon, 3 tryptophans); flags '
         '%s; miscleavage = %s, min_length and max_length UNBOUNDED symbolic integers')
CASE_ALT = _AltCase()


def _mkalt(name, sect, w2f, misc, tiers):
    def f(lo: int, hi: int) -> int:
        """
        pre: 1 <= lo
        post: _ >= 0
        """
        return CASE_ALT.check(sect, w2f, misc, lo, hi)
    f.__name__ = f.__qualname__ = name
    flags = ' '.join(x for x, on in (('--selenocysteine-termination', sect), ('--w2f-reassignment', w2f)) if on)
    return cond('C09', bounds=_BALT % (flags, misc), encodes=ENC_ALT, stubs=STUBS, codes=CODES_ALT, timeout=900,
                tiers=tiers)(f)


c09_traversal_sect_0 = _mkalt('c09_traversal_sect_0', True, False, 0, ('quick', 'thorough'))
c09_traversal_sect_1 = _mkalt('c09_traversal_sect_1', True, False, 1, ('quick', 'thorough'))
c09_traversal_w2f_0 = _mkalt('c09_traversal_w2f_0', False, True, 0, ('quick', 'thorough'))
c09_traversal_w2f_1 = _mkalt('c09_traversal_w2f_1', False, True, 1, ('quick', 'thorough'))
c09_traversal_both_0 = _mkalt('c09_traversal_both_0', True, True, 0, ('quick', 'thorough'))
c09_traversal_both_1 = _mkalt('c09_traversal_both_1', True, True, 1, ('quick', 'thorough'))
c09_traversal_both_2 = _mkalt('c09_traversal_both_2', True, True, 2, ('thorough',))
