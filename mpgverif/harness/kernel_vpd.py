"""Kernels of the peptide-calling stage that are within reach (C04, C05, C09):

* miscleavage enumeration (VariantPeptideDict.find_miscleaved_nodes) == a small reference
  model, for unbounded symbolic limits; the reference model is shown monotone by z3 (LIA);
* size predicates of MiscleavedNodeSeries;
* W>F enumeration (VariantPeptideDict.translational_modification);
* header-entry index uniqueness (get_peptide_sequences);
* the two output filters (VariantPeptideTable.is_valid, VariantPeptidePool.add_peptide);
* table <-> FASTA consistency (VariantPeptideTable.add_peptide / load_peptide / write_fasta).

Graph nodes are duck-typed stand-ins exposing exactly the attributes these functions read
(content-hashing real PVGNode objects would realise everything)."""
import io
import itertools
import time
from typing import List

import z3
from Bio import SeqUtils
from Bio.Seq import Seq

from moPepGen import VARIANT_PEPTIDE_SOURCE_DELIMITER
from moPepGen.SeqFeature import FeatureLocation
from moPepGen.aa import AminoAcidSeqRecord
from moPepGen.aa.VariantPeptidePool import VariantPeptidePool
from moPepGen.params import CleavageParams
from moPepGen.svgraph.VariantPeptideDict import (AnnotatedPeptideLabel, MiscleavedNodeSeries,
                                                 PeptideSegment, VariantPeptideDict,
                                                 VariantPeptideMetadata)
from moPepGen.svgraph.VariantPeptideTable import VariantPeptideTable
from mpgverif.hlib import OK, SKIP, concretize, cond, mkseq, patched, seq_points
from mpgverif.z3cond import zcond

USE_SHIM = True
USE_TOKENS = False


class _FSeq:
    """length + 'starts with M' only"""

    def __init__(self, n, m):
        self.n, self.m = n, m

    def __len__(self):
        return self.n

    def startswith(self, ch):
        return self.m if ch == 'M' else False


class _Holder:
    def __init__(self, seq):
        self.seq = seq


class _Node:
    def __init__(self, n, m=False, cpop=False, trunc=False):
        self.seq = _Holder(_FSeq(n, m))
        self.cpop_collapsed = cpop
        self.truncated = trunc
        self.variants = []
        self.out_nodes = []
        self.selenocysteines = []

    def get_subgraph_id_set(self):
        return {'g'}

    def get_downstream_stop_altering_variants(self):
        return set()

    def is_hybrid_node(self, subgraphs):
        return False


def _too_long(total, starts_m, max_length):
    return not (total <= max_length or (starts_m and total <= max_length + 1))


# ------------------------------------------------------------------ A: size predicates
@cond('C05', bounds='series of 2 nodes with UNBOUNDED symbolic lengths, leading M symbolic, UNBOUNDED min/max length '
      'and a second, more permissive pair of limits', encodes=['moPepGen.svgraph.VariantPeptideDict.'
      'MiscleavedNodeSeries.is_too_short/is_too_long/__len__'],
      codes={-1: 'is_too_long differs from: longer than max_length, allowing one more residue for a leading M',
             -2: 'is_too_short differs from: shorter than min_length',
             -3: 'relaxing a length limit turns an accepted series into a rejected one'}, timeout=200)
def c05_series_limits(n0: int, n1: int, m: bool, lo: int, hi: int, lo2: int, hi2: int) -> int:
    """
    pre: n0 >= 0 and n1 >= 0
    pre: lo2 <= lo and hi <= hi2
    post: _ >= 0
    """
    s = MiscleavedNodeSeries([_Node(n0, m), _Node(n1)], set())
    p = CleavageParams(enzyme='trypsin', min_length=lo, max_length=hi)
    p2 = CleavageParams(enzyme='trypsin', min_length=lo2, max_length=hi2)
    total = n0 + n1
    if s.is_too_long(p) != _too_long(total, m, hi):
        return -1
    if s.is_too_short(p) != (total < lo):
        return -2
    ok = not s.is_too_long(p) and not s.is_too_short(p)
    s2 = MiscleavedNodeSeries([_Node(n0, m), _Node(n1)], set())
    ok2 = not s2.is_too_long(p2) and not s2.is_too_short(p2)
    if ok and not ok2:
        return -3
    return OK


# ------------------------------------------------------------------ B: miscleavage enumeration
def _model(lens, starts_m, misc, lo, hi):
    """reference: prefix k (0-based, k+1 nodes) is reported iff k <= misc, total >= lo, not too
    long, and no shorter prefix is too long"""
    out = []
    total = 0
    for k in range(len(lens)):
        total += lens[k]
        if k > misc:
            break
        if _too_long(total, starts_m, hi):
            break
        if total >= lo:
            out.append(k)
    return out


def _enumerate(lens, starts_m, misc, lo, hi, diamond):
    nodes = [_Node(lens[0], starts_m)] + [_Node(n) for n in lens[1:]]
    for a, b in zip(nodes, nodes[1:]):
        a.out_nodes.append(b)
    if diamond and len(nodes) >= 3:
        nodes[0].out_nodes.append(nodes[2])      # a second route skipping node 1
    p = CleavageParams(enzyme='trypsin', miscleavage=misc, min_length=lo, max_length=hi,
                       max_variants_per_node=-1, additional_variants_per_misc=-1)
    vpd = VariantPeptideDict('T1', cleavage_params=p)
    res = vpd.find_miscleaved_nodes(node=nodes[0], orfs=['orf'], cleavage_params=p, tx_id='T1',
                                    gene_id='G1', leading_node=nodes[0], subgraphs=None,
                                    is_circ_rna=False, backsplicing_only=False)
    got = []
    for series in res.data:
        got.append([nodes.index(n) for n in series.nodes])
    return got


def _check_enum(lens, starts_m, misc, lo, hi, diamond):
    for n in lens:
        if n < 1:
            return SKIP
    got = _enumerate(lens, starts_m, misc, lo, hi, diamond)
    want = [list(range(k + 1)) for k in _model(lens, starts_m, misc, lo, hi)]
    if diamond and len(lens) >= 3:
        # route 0 -> 2 (and 0 -> 2 -> 3): same rule on that chain
        alt = [lens[0]] + lens[2:]
        idx = [0] + list(range(2, len(lens)))
        for k in _model(alt, starts_m, misc, lo, hi):
            if k >= 1:
                want.append([idx[i] for i in range(k + 1)])
    if sorted(got) != sorted(want):
        return -1
    return OK


CODES_B = {-1: 'series reported by find_miscleaved_nodes differ from: every chain of <= miscleavage+1 consecutive '
               'nodes whose total length is within [min_length, max_length (+1 for a leading M)]',
           -2: 'the reference model is not monotone in the limits (z3)'}
ENC_B = ['moPepGen.svgraph.VariantPeptideDict.VariantPeptideDict.find_miscleaved_nodes',
         'moPepGen.svgraph.VariantPeptideDict.MiscleavedNodeSeries']
STUB_B = ['graph nodes -> duck-typed stand-ins (length, leading M, out_nodes; no variants, no Sec, no collapsing)']


@cond('C05', bounds='chain of 3 nodes (+ optional shortcut edge), UNBOUNDED node lengths >= 1, leading M symbolic, '
      'miscleavage 0..3, UNBOUNDED min/max length', encodes=ENC_B, stubs=STUB_B, codes=CODES_B, timeout=400)
def c05_enumeration_3(l0: int, l1: int, l2: int, m: bool, misc: int, lo: int, hi: int,
                      diamond: bool) -> int:
    """
    pre: 0 <= misc <= 3
    post: _ >= 0
    """
    return _check_enum([l0, l1, l2], m, misc, lo, hi, diamond)


@cond('C05', bounds='chain of 4 nodes (+ optional shortcut edge), UNBOUNDED node lengths >= 1, miscleavage 0..4, '
      'UNBOUNDED min/max length', encodes=ENC_B, stubs=STUB_B, codes=CODES_B, timeout=1500, tiers=('thorough',))
def c05_enumeration_4(l0: int, l1: int, l2: int, l3: int, m: bool, misc: int, lo: int, hi: int,
                      diamond: bool) -> int:
    """
    pre: 0 <= misc <= 4
    post: _ >= 0
    """
    return _check_enum([l0, l1, l2, l3], m, misc, lo, hi, diamond)


def _check_enum_cpop(lens, cpop, starts_m, misc, lo, hi):
    """chain with C-terminally pop-collapsed nodes (their end is not a cleavage site, so they use up no missed
    cleavage and a series never ends at one); declarative oracle, each conjunct monotone in its limit"""
    for n in lens:
        if n < 1:
            return SKIP
    nodes = [_Node(lens[0], starts_m, cpop=cpop[0])] + [_Node(n, cpop=c) for n, c in zip(lens[1:], cpop[1:])]
    for a, b in zip(nodes, nodes[1:]):
        a.out_nodes.append(b)
    p = CleavageParams(enzyme='trypsin', miscleavage=misc, min_length=lo, max_length=hi,
                       max_variants_per_node=-1, additional_variants_per_misc=-1)
    vpd = VariantPeptideDict('T1', cleavage_params=p)
    res = vpd.find_miscleaved_nodes(node=nodes[0], orfs=['orf'], cleavage_params=p, tx_id='T1',
                                    gene_id='G1', leading_node=nodes[0], subgraphs=None,
                                    is_circ_rna=False, backsplicing_only=False)
    got = sorted(len(series.nodes) - 1 for series in res.data)
    want = []
    total = 0
    sites = 0
    for k in range(len(lens)):
        total += lens[k]
        if cpop[k]:
            continue
        sites += 1
        if sites - 1 <= misc and total >= lo and not _too_long(total, starts_m, hi):
            want.append(k)
    if got != want:
        return -1
    return OK


@cond('C05', bounds='chain of 3 nodes each symbolically C-terminally pop-collapsed or not, UNBOUNDED node lengths >= 1, '
      'leading M symbolic, miscleavage 0..2, UNBOUNDED min/max length', encodes=ENC_B,
      stubs=['graph nodes -> duck-typed stand-ins (length, leading M, out_nodes, cpop_collapsed; no variants, no Sec)'],
      codes={-1: 'series reported differ from: every prefix ending at a cleavage site (non-collapsed node) with <= '
                 'miscleavage earlier sites and total length within [min_length, max_length (+1 for a leading M)]'},
      timeout=400)
def c05_enumeration_cpop3(l0: int, l1: int, l2: int, c0: bool, c1: bool, c2: bool, m: bool, misc: int, lo: int,
                          hi: int) -> int:
    """
    pre: 0 <= misc <= 2
    post: _ >= 0
    """
    return _check_enum_cpop([l0, l1, l2], [c0, c1, c2], m, misc, lo, hi)


@zcond('C05', bounds='reference model of the miscleavage enumeration on chains of <= 6 nodes: for ALL integer node '
       'lengths >= 1 and ALL limit pairs (miscleavage <= miscleavage2, min_length >= min_length2, max_length <= '
       'max_length2) every reported chain stays reported (QF_LIA, unbounded integers)',
       encodes=['reference model _model() of find_miscleaved_nodes (equivalence decided by c05_enumeration_*)'],
       timeout=120)
def c05_model_monotone(tier):
    n = 6
    L = [z3.Int(f'l{i}') for i in range(n)]
    m = z3.Bool('m')
    misc, lo, hi = z3.Ints('misc lo hi')
    misc2, lo2, hi2 = z3.Ints('misc2 lo2 hi2')

    def toolong(total, h):
        return z3.Not(z3.Or(total <= h, z3.And(m, total <= h + 1)))

    def reported(k, mi, l, h):
        tot = [z3.Sum(L[:i + 1]) for i in range(k + 1)]
        return z3.And([k <= mi, tot[k] >= l] + [z3.Not(toolong(t, h)) for t in tot])

    s = z3.Solver()
    s.add([x >= 1 for x in L])
    s.add(misc >= 0, misc <= misc2, lo >= lo2, hi <= hi2)
    s.add(z3.Or([z3.And(reported(k, misc, lo, hi), z3.Not(reported(k, misc2, lo2, hi2)))
                 for k in range(n)]))
    t = time.time()
    r = str(s.check())
    dt = time.time() - t
    # vacuity twin: the reversed inclusion must be refutable
    s2 = z3.Solver()
    s2.add([x >= 1 for x in L])
    s2.add(misc >= 0, misc <= misc2, lo >= lo2, hi <= hi2)
    s2.add(z3.Or([z3.And(reported(k, misc2, lo2, hi2), z3.Not(reported(k, misc, lo, hi)))
                  for k in range(n)]))
    r2 = str(s2.check())
    out = {'queries': 2, 'solver_s': round(dt, 3), 'obligations': 1, 'twins_refuted': 1 if r2 == 'sat' else 0,
           'validated': 0, 'witnesses': [], 'malfunctions': [], 'detail': f'chains of <= {n} nodes'}
    if r2 != 'sat':
        out['malfunctions'].append('vacuity twin (reverse inclusion) not satisfiable')
    if r == 'unsat' and r2 == 'sat':
        out['status'] = 'CONFIRMED'
    elif r == 'sat':
        out['status'] = 'REFUTED'
        out['witnesses'].append({'code': '-2', 'input': str(s.model()), 'what': CODES_B[-2]})
    else:
        out['status'] = 'UNKNOWN' if not out['malfunctions'] else 'REFUTED'
        out['message'] = f'solver {r}'
    return out


# ------------------------------------------------------------------ C: W>F enumeration
def _w2f(p, lo, hi, denied_mask):
    n = len(p)
    seq = mkseq(p)
    params = CleavageParams(enzyme='trypsin', min_length=lo, max_length=hi, min_mw=0.)
    vpd = VariantPeptideDict('T1', cleavage_params=params, w2f=True)
    meta = VariantPeptideMetadata(label='T1|SNV-1-A-T', orf=(0, 30), has_variants=False)
    vpd.peptides[seq] = {meta.get_key(): meta}
    vpd.seqs.add(seq)
    with patched((SeqUtils, 'molecular_weight', lambda s, t='protein': 1000.0)):
        vpd.translational_modification(True, set())
    wpos = [i for i in range(n) if p[i] == 87]
    size_ok = lo <= n <= hi
    want = 1 + ((2 ** len(wpos) - 1) if size_ok else 0)
    if len(vpd.peptides) != want:
        return -1                  # number of sequences != original + non-empty W>F substitution sets
    # the original entry is untouched
    if seq not in vpd.peptides or list(vpd.peptides[seq].values())[0].label != 'T1|SNV-1-A-T':
        return -2
    if not size_ok:
        return OK
    for k in range(1, len(wpos) + 1):
        for comb in itertools.combinations(wpos, k):
            q = list(p)
            for i in comb:
                q[i] = 70
            mod = mkseq(q)
            if mod not in vpd.peptides:
                return -3          # a W>F form is missing
            metas = list(vpd.peptides[mod].values())
            if len(metas) != 1:
                return -4
            if metas[0].label != 'T1|SNV-1-A-T|' + '|'.join(f'W2F-{i + 1}' for i in comb):
                return -5          # header does not name exactly the substituted tryptophans
            if not metas[0].has_variants:
                return -6
    return OK


CODES_C = {-1: 'number of sequences after W>F reassignment differs from 2^(number of W)',
           -2: 'the unmodified peptide entry was altered', -3: 'a W>F form is missing',
           -4: 'duplicate metadata for a W>F form', -5: 'header does not name exactly the substituted tryptophans',
           -6: 'W>F form not flagged as variant'}


@cond('C09', bounds='peptide of length <= 4 over {A, F, W} (every string), UNBOUNDED symbolic length limits',
      encodes=['moPepGen.svgraph.VariantPeptideDict.VariantPeptideDict.translational_modification / '
               'find_codon_reassignments / is_valid_seq', 'moPepGen.seqvar.VariantRecord.create_variant_w2f'],
      stubs=['Bio.SeqUtils.molecular_weight -> constant'], codes=CODES_C, timeout=600)
def c09_w2f_enumeration(idx: List[int], lo: int, hi: int) -> int:
    """
    pre: 1 <= len(idx) <= 4
    pre: all(0 <= i <= 2 for i in idx)
    post: _ >= 0
    """
    p = [[65, 70, 87][concretize(i, 0, 2)] for i in idx]
    return _w2f(p, lo, hi, 0)


@cond('C08', bounds='callNovelORF --w2f-reassignment kernel: peptide of length <= 4 over {A, F, W} (every string, so a '
      'W at the first / last / second-to-last residue and runs of W), UNBOUNDED symbolic length limits: exactly the '
      '2^k - 1 W>F forms are added',
      encodes=['moPepGen.svgraph.VariantPeptideDict.VariantPeptideDict.translational_modification / '
               'find_codon_reassignments / is_valid_seq', 'moPepGen.seqvar.VariantRecord.create_variant_w2f'],
      stubs=['Bio.SeqUtils.molecular_weight -> constant'], codes=CODES_C, timeout=600)
def c08_w2f_forms(idx: List[int], lo: int, hi: int) -> int:
    """
    pre: 1 <= len(idx) <= 4
    pre: all(0 <= i <= 2 for i in idx)
    post: _ >= 0
    """
    p = [[65, 70, 87][concretize(i, 0, 2)] for i in idx]
    return _w2f(p, lo, hi, 0)


@cond('C05', bounds='enabling W>F only ADDS sequences, each carrying a W2F identifier: peptide of length <= 3 over '
      '{A, F, W}', encodes=['moPepGen.svgraph.VariantPeptideDict.VariantPeptideDict.translational_modification'],
      stubs=['Bio.SeqUtils.molecular_weight -> constant'], codes=CODES_C, timeout=300)
def c05_w2f_only_adds(idx: List[int]) -> int:
    """
    pre: 1 <= len(idx) <= 3
    pre: all(0 <= i <= 2 for i in idx)
    post: _ >= 0
    """
    p = [[65, 70, 87][concretize(i, 0, 2)] for i in idx]
    return _w2f(p, 0, 50, 0)


# ------------------------------------------------------------------ D: header entry index
LABS = ['T1|SNV-1-A-T', 'T1|SNV-9-C-G']


def _label_index(la, lb, lc, hv_a, hv_b, hv_c, oa, ob, oc, same_seq, use_orf_ids):
    """three metadata entries distributed over one or two sequences"""
    labs = [LABS[concretize(x, 0, 1)] for x in (la, lb, lc)]
    orfs = [(o, o + 30) for o in (concretize(oa, 0, 1), concretize(ob, 0, 1), concretize(oc, 0, 1))]
    hv = [hv_a, hv_b, hv_c]
    vpd = VariantPeptideDict('T1', check_orf=use_orf_ids)
    s1, s2 = Seq('AAAK'), Seq('CCCK')
    owners = [s1, s1 if same_seq else s2, s2]
    for i in range(3):
        m = VariantPeptideMetadata(label=labs[i], orf=orfs[i], has_variants=hv[i], check_orf=use_orf_ids)
        vpd.peptides.setdefault(owners[i], {})[m.get_key() + f'#{i}'] = m
    orf_map = None
    if use_orf_ids:
        orf_map = {}
        for o in orfs:
            if o not in orf_map:
                orf_map[o] = f'ORF{len(orf_map) + 1}'
    res = vpd.get_peptide_sequences(keep_all_occurrence=True, orf_id_map=orf_map, check_variants=True)
    all_labels = []
    for seq, annos in res.items():
        for a in annos:
            all_labels.append(a.label)
    if len(set(all_labels)) != len(all_labels):
        return -1                  # a header entry string (with index) occurs twice
    counts = {}
    for lab in all_labels:
        base, k = lab.rsplit('|', 1)
        counts.setdefault(base, []).append(int(k))
    for base, ks in counts.items():
        if sorted(ks) != list(range(1, len(ks) + 1)):
            return -2              # indices of a label are not 1..n
    return OK


@cond('C04', bounds='3 metadata entries over 1-2 sequences, labels from a 2-label alphabet, has_variants flags, ORF starts '
      'in 0..1 (equal or different ORFs), with / without ORF ids', encodes=['moPepGen.svgraph.VariantPeptideDict.'
      'VariantPeptideDict.get_peptide_sequences'],
      codes={-1: 'a header entry string (including its trailing index) occurs twice',
             -2: 'the indices of one label are not 1..n'}, timeout=400)
def c04_header_index_unique(la: int, lb: int, lc: int, hv_a: bool, hv_b: bool, hv_c: bool, oa: int,
                            ob: int, oc: int, same_seq: bool, use_orf_ids: bool) -> int:
    """
    pre: 0 <= la <= 1 and 0 <= lb <= 1 and 0 <= lc <= 1
    pre: 0 <= oa <= 1 and 0 <= ob <= 1 and 0 <= oc <= 1
    post: _ >= 0
    """
    return _label_index(la, lb, lc, hv_a, hv_b, hv_c, oa, ob, oc, same_seq, use_orf_ids)


# ------------------------------------------------------------------ E: output filters
def _filters(n, mw, lo, hi, min_mw, canonical, has_x):
    p = [65] * 0
    seq = Seq('PEPTIDEK')

    class _S:
        """sequence with symbolic length; text fixed"""

        def __len__(self):
            return n

        def __str__(self):
            return 'PEPTIDEK'

        def __hash__(self):
            return 1

        def __eq__(self, o):
            return isinstance(o, _S)

    params = CleavageParams(enzyme='trypsin', min_length=lo, max_length=hi, min_mw=min_mw)
    canon = {'PEPTIDEK'} if canonical else {'OTHER'}
    s = _S()
    with patched((SeqUtils, 'molecular_weight', lambda s_, t='protein': mw)):
        t_ok = VariantPeptideTable(io.StringIO()).is_valid(s, canon, params)
        rec = AminoAcidSeqRecord.__new__(AminoAcidSeqRecord)
        rec._seq = s
        rec.description = 'L'
        rec.id = rec.name = 'L'
        pool = VariantPeptidePool()
        p_ok = pool.add_peptide(rec, canon, params)
    if t_ok != p_ok:
        return -1                  # the two output filters disagree
    if t_ok and not (lo <= n <= hi and mw >= min_mw and not canonical):
        return -2                  # a peptide outside the limits / in the canonical pool accepted
    if not t_ok and (lo <= n <= hi and mw > min_mw and not canonical):
        return -3                  # a peptide within all limits rejected
    if p_ok != (len(pool.peptides) == 1):
        return -4
    return OK


@cond('C04', bounds='UNBOUNDED symbolic peptide length, mass (integer), min/max length, min mass; canonical-pool '
      'membership symbolic', encodes=['moPepGen.svgraph.VariantPeptideTable.VariantPeptideTable.is_valid',
      'moPepGen.aa.VariantPeptidePool.VariantPeptidePool.add_peptide'],
      stubs=['Bio.SeqUtils.molecular_weight -> symbolic integer', 'peptide -> object with symbolic length'],
      codes={-1: 'VariantPeptideTable.is_valid and VariantPeptidePool.add_peptide disagree',
             -2: 'a peptide outside the length / mass limits or in the canonical pool was accepted',
             -3: 'a peptide within all limits and not canonical was rejected',
             -4: 'pool content disagrees with the acceptance verdict'}, timeout=200)
def c04_filters_agree(n: int, mw: int, lo: int, hi: int, min_mw: int, canonical: bool) -> int:
    """
    pre: n >= 0
    post: _ >= 0
    """
    return _filters(n, mw, lo, hi, min_mw, canonical, False)


# ------------------------------------------------------------------ F: table <-> FASTA
TSEQ = ['AAAK', 'CCCDK']
TLAB = ['T1|SNV-1-A-T|1', 'T2|INDEL-5-AA-A|1']


def _table(ops, a0, b0, a1, b1):
    """ops: 3 additions, each (sequence index, label index) with one or two segments"""
    handle = io.StringIO()
    table = VariantPeptideTable(handle)
    table.write_header()
    added = []
    for op in ops:
        op = concretize(op, 0, 3)
        si, li = op // 2, op % 2
        seq = Seq(TSEQ[si])
        n = len(TSEQ[si])
        cuts = [(concretize(a0, 0, 2), concretize(b0, 2, 4)), (concretize(a1, 0, 1), concretize(b1, 1, 3))]
        segs = []
        for (a, b) in cuts[:1 + li]:
            if not a < b <= n:
                return SKIP
            segs.append(PeptideSegment(query=FeatureLocation(start=a, end=b), ref=None,
                                       feature_type='transcript', feature_id='T', variant_id=None))
        table.add_peptide(seq, AnnotatedPeptideLabel(TLAB[li], segs))
        added.append((TSEQ[si], TLAB[li], [(a, b) for a, b in cuts[:1 + li]]))
    written = []

    class _W:
        def __init__(self, h, record2title=None):
            self.t = record2title

        def write_record(self, rec):
            written.append((str(rec.seq), self.t(rec)))

    class _H:
        def __enter__(self):
            return self

        def __exit__(self, *a):
            return False

    import sys as _sys
    import moPepGen.svgraph.VariantPeptideTable  # noqa: F401
    vpt = _sys.modules['moPepGen.svgraph.VariantPeptideTable']
    with patched((vpt, 'open', lambda *a, **k: _H()), (vpt.FastaIO, 'FastaWriter', _W)):
        table.write_fasta('x.fasta')
    seqs = [s for s, _ in written]
    if len(set(seqs)) != len(seqs):
        return -1                  # a sequence occurs twice in the FASTA
    want = {}
    for s, lab, _ in added:
        want.setdefault(s, set()).add(lab)
    got = {s: set(h.split(VARIANT_PEPTIDE_SOURCE_DELIMITER)) for s, h in written}
    if got != want:
        return -2                  # FASTA (sequence, header entry) pairs differ from the table
    rows = [ln.split('\t') for ln in handle.getvalue().splitlines() if not ln.startswith('#')]
    exp_rows = []
    for s, lab, cuts in added:
        for a, b in cuts:
            exp_rows.append((s, lab, s[a:b], str(a), str(b)))
    if [tuple(r[:5]) for r in rows] != exp_rows:
        return -3                  # a table row's sub-sequence is not the stated slice of the peptide
    return OK


@cond('C04', bounds='2 table additions over 2 sequences x 2 labels with 1-2 segments (segment bounds from a small '
      'grid), then FASTA regeneration from the table index', encodes=['moPepGen.svgraph.VariantPeptideTable.'
      'VariantPeptideTable.add_peptide / load_peptide / write_fasta', 'PeptideSegment.to_line'],
      stubs=['open / FastaIO.FastaWriter -> recorder (table handle is a real StringIO)'],
      codes={-1: 'a sequence occurs twice in the FASTA',
             -2: 'FASTA (sequence, header entry) pairs differ from the table',
             -3: "a table row's sub-sequence differs from the stated slice"}, timeout=600)
def c04_table_fasta2(o0: int, o1: int, a0: int, b0: int, a1: int, b1: int) -> int:
    """
    pre: 0 <= o0 <= 3 and 0 <= o1 <= 3
    pre: 0 <= a0 <= 2 and 2 <= b0 <= 4 and 0 <= a1 <= 1 and 1 <= b1 <= 3
    post: _ >= 0
    """
    return _table([o0, o1], a0, b0, a1, b1)


@cond('C04', bounds='3 table additions over 2 sequences x 2 labels with 1-2 segments (segment bounds from a small '
      'grid), then FASTA regeneration from the table index', encodes=['moPepGen.svgraph.VariantPeptideTable.'
      'VariantPeptideTable.add_peptide / load_peptide / write_fasta', 'PeptideSegment.to_line'],
      stubs=['open / FastaIO.FastaWriter -> recorder (table handle is a real StringIO)'],
      codes={-1: 'a sequence occurs twice in the FASTA',
             -2: 'FASTA (sequence, header entry) pairs differ from the table',
             -3: "a table row's sub-sequence differs from the stated slice"}, timeout=1500, tiers=('thorough',))
def c04_table_fasta(o0: int, o1: int, o2: int, a0: int, b0: int, a1: int, b1: int) -> int:
    """
    pre: 0 <= o0 <= 3 and 0 <= o1 <= 3 and 0 <= o2 <= 3
    pre: 0 <= a0 <= 2 and 2 <= b0 <= 4 and 0 <= a1 <= 1 and 1 <= b1 <= 3
    post: _ >= 0
    """
    return _table([o0, o1, o2], a0, b0, a1, b1)
