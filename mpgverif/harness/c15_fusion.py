"""C15 (GVF half): the three fusion parsers + breakpoint shift + transcript mapping.

Chain executed for real: <Parser>Record.convert_to_variant_records ->
VariantRecord.shift_breakpoint_to_closest_exon -> VariantRecord.to_transcript_variant, then
the slices that call_peptide_fusion / apply_fusion take are computed from the record
(`tx_seq[:location.start]`, gene[LEFT_INSERTION_START:END], gene[RIGHT_INSERTION_START:END],
accepter_tx[coordinate_gene_to_transcript(ACCEPTER_POSITION):]).

Oracle = provenance: for an arbitrary genomic probe position p of the donor (resp. acceptor)
gene, "p is part of the denoted fusion molecule" <=> "p is exonic at or upstream of the left
breakpoint, or an intronic base between the upstream exon and an intronic left breakpoint"
(resp. mirrored for the acceptor).  One condition per (tool, side, strand); the other side is a
fixed single-exon gene.  Sequence content is stubbed (REF base outside the claim)."""
from moPepGen import dna, gtf
from moPepGen.parser.ArribaParser import ArribaRecord
from moPepGen.parser.FusionCatcherParser import FusionCatcherRecord
from moPepGen.parser.STARFusionParser import STARFusionRecord
from mpgverif.harness.annobuild import exons_valid, gene_model, tx_index_oracle, tx_len, tx_model
from mpgverif.hlib import OK, SKIP, blank_seq, cond

USE_SHIM = True
USE_TOKENS = True

ENC = ['moPepGen.parser.*Parser.*Record.convert_to_variant_records',
       'moPepGen.seqvar.VariantRecord.VariantRecord.shift_breakpoint_to_closest_exon / to_transcript_variant',
       'moPepGen.gtf.TranscriptAnnotationModel.get_upstream_exon_end / get_downstream_exon_start / is_exonic',
       'moPepGen.gtf.GenomicAnnotation.coordinate_* / get_transcripts_with_position']


def _record(tool, left_gene, left1, right_gene, right1):
    if tool == 0:
        r = STARFusionRecord.__new__(STARFusionRecord)
        r.left_gene, r.right_gene = left_gene, right_gene
        r.left_breakpoint = f'chr1:{left1}:+'
        r.right_breakpoint = f'chr2:{right1}:+'
    elif tool == 1:
        r = FusionCatcherRecord.__new__(FusionCatcherRecord)
        r.five_end_gene_id, r.three_end_gene_id = left_gene + '.1', right_gene + '.1'
        r.five_end_breakpoint = f'chr1:{left1}:+'
        r.three_end_breakpoint = f'chr2:{right1}:+'
    else:
        r = ArribaRecord.__new__(ArribaRecord)
        r.gene_id1, r.gene_id2 = left_gene, right_gene
        r.breakpoint1 = f'chr1:{left1}'
        r.breakpoint2 = f'chr2:{right1}'
    return r


def _anno(dg, da):
    """dg / da: (gene id, chrom, gs, ge, strand, exons) of donor and acceptor"""
    genes, txs = {}, {}
    for gid, chrom, gs, ge, strand, exons in (dg, da):
        tid = 'T' + gid
        genes[gid] = gene_model(gid, chrom, gs, ge, strand, [tid])
        txs[tid] = tx_model(tid, gid, chrom, strand, exons)
    return gtf.GenomicAnnotation(genes=genes, transcripts=txs, source='GENCODE')


class _Genome(dict):
    pass


def _run(tool, dg, da, left1, right1):
    suffix = '.1' if tool == 1 else ''
    dg = (dg[0] + suffix,) + dg[1:]
    da = (da[0] + suffix,) + da[1:]
    anno = _anno(dg, da)
    genome = _Genome()
    genome['chr1'] = dna.DNASeqRecord(blank_seq(60000), id='chr1', name='chr1', description='chr1')
    genome['chr2'] = dna.DNASeqRecord(blank_seq(60000), id='chr2', name='chr2', description='chr2')
    rec = _record(tool, dg[0][:-2] if tool == 1 else dg[0], left1, da[0][:-2] if tool == 1 else da[0], right1)
    recs = rec.convert_to_variant_records(anno, genome)
    return anno, recs, dg, da


def _donor_side(tool, strand, gs, ge, exons, left1):
    """symbolic donor gene (2 exons), fixed acceptor; left1: 1-based left breakpoint"""
    if not exons_valid(gs, ge, exons):
        return None
    L0 = left1 - 1
    if not exons[0][0] <= L0 < exons[-1][1]:
        return None                # breakpoint within the donor transcript span
    dg = ('GD', 'chr1', gs, ge, strand, exons)
    da = ('GA', 'chr2', 100, 200, 1, [(100, 200)])
    return _run(tool, dg, da, left1, 151)


def _check_donor(tool, strand, gs, ge, exons, left1, p):
    out = _donor_side(tool, strand, gs, ge, exons, left1)
    if out is None:
        return SKIP
    anno, recs, dg, da = out
    L0 = left1 - 1
    if len(recs) != 1:
        return -1                  # exactly one donor/acceptor transcript pair is eligible here
    r = recs[0]
    (x0, y0), (x1, y1) = exons
    exonic_bp = tx_index_oracle(exons, strand, L0) is not None
    first_base = L0 == (x0 if strand == 1 else y1 - 1)
    # an intronic breakpoint needs an upstream exon; a breakpoint on the first transcript base is fine
    r.shift_breakpoint_to_closest_exon(anno)
    tr = r.to_transcript_variant(anno, None, 'T' + dg[0], {'T' + dg[0]: object()})
    cut = tr.location.start        # donor transcript positions [0, cut) are kept
    lis, lie = r.attrs['LEFT_INSERTION_START'], r.attrs['LEFT_INSERTION_END']
    # membership of genomic position p in the denoted molecule (donor part)
    t = tx_index_oracle(exons, strand, p)
    in_tx_part = t is not None and t < cut
    in_ins = False
    if lis is not None:
        k = p - gs if strand == 1 else ge - 1 - p
        in_ins = gs <= p < ge and lis <= k < lie
    got = in_tx_part or in_ins
    # definition
    if strand == 1:
        upstream_or_at = p <= L0
        in_gap = (not exonic_bp) and y0 <= p <= L0
    else:
        upstream_or_at = p >= L0
        in_gap = (not exonic_bp) and L0 <= p < x1
    want = (t is not None and upstream_or_at) or in_gap
    if got != want:
        return -2                  # donor part of the fusion molecule differs from the definition
    if in_tx_part and in_ins:
        return -3                  # a base would be included twice
    if exonic_bp and lis is not None:
        return -4                  # exonic breakpoint must not create an intronic insertion
    return OK


def _check_acceptor(tool, strand, gs, ge, exons, right1, q):
    if not exons_valid(gs, ge, exons):
        return SKIP
    R0 = right1 - 1
    if not exons[0][0] <= R0 < exons[-1][1]:
        return SKIP
    dg = ('GD', 'chr1', 100, 200, 1, [(100, 200)])
    da = ('GA', 'chr2', gs, ge, strand, exons)
    anno, recs, dg, da = _run(tool, dg, da, 150, right1)
    if len(recs) != 1:
        return -1
    r = recs[0]
    (x0, y0), (x1, y1) = exons
    exonic_bp = tx_index_oracle(exons, strand, R0) is not None
    r.shift_breakpoint_to_closest_exon(anno)
    ap = r.get_accepter_position()
    start_t = anno.coordinate_gene_to_transcript(ap, da[0], 'T' + da[0])
    ris, rie = r.attrs['RIGHT_INSERTION_START'], r.attrs['RIGHT_INSERTION_END']
    t = tx_index_oracle(exons, strand, q)
    in_tx_part = t is not None and t >= start_t
    in_ins = False
    if ris is not None:
        k = q - gs if strand == 1 else ge - 1 - q
        in_ins = gs <= q < ge and ris <= k < rie
    got = in_tx_part or in_ins
    if strand == 1:
        at_or_down = q >= R0
        in_gap = (not exonic_bp) and R0 <= q < x1
    else:
        at_or_down = q <= R0
        in_gap = (not exonic_bp) and y0 <= q <= R0
    want = (t is not None and at_or_down) or in_gap
    if got != want:
        return -5                  # acceptor part of the fusion molecule differs from the definition
    if in_tx_part and in_ins:
        return -3
    if exonic_bp and ris is not None:
        return -4
    return OK


CODES = {-1: 'number of emitted records differs from the number of eligible donor/acceptor transcript pairs',
         -2: 'donor part denoted by the record differs from: donor transcript up to the left breakpoint '
             '(plus retained intronic bases for an intronic breakpoint)',
         -3: 'a base is denoted twice (transcript part and intronic insertion overlap)',
         -4: 'exonic breakpoint produced an intronic insertion',
         -5: 'acceptor part denoted by the record differs from: acceptor transcript from the right breakpoint '
             '(plus retained intronic bases for an intronic breakpoint)'}
_BD = ('donor gene with 2 exons, all coordinates symbolic (< 59000), left breakpoint anywhere in the transcript span '
       '(exonic or intronic), arbitrary genomic probe position; acceptor fixed')
_BA = ('acceptor gene with 2 exons, all coordinates symbolic (< 59000), right breakpoint anywhere in the transcript '
       'span (exonic or intronic), arbitrary genomic probe position; donor fixed')


# --- STAR-Fusion
@cond('C15', bounds='STAR-Fusion, donor side, both strands; ' + _BD, encodes=ENC, codes=CODES, tokens=True,
      timeout=600)
def c15_star_donor(plus: bool, gs: int, ge: int, a0: int, b0: int, a1: int, b1: int, left1: int,
                   p: int) -> int:
    """
    pre: 0 <= gs and ge < 59000 and 0 <= p < 59000
    post: _ >= 0
    """
    return _check_donor(0, 1 if plus else -1, gs, ge, [(a0, b0), (a1, b1)], left1, p)


@cond('C15', bounds='STAR-Fusion, acceptor side, both strands; ' + _BA, encodes=ENC, codes=CODES, tokens=True,
      timeout=600)
def c15_star_acceptor(plus: bool, gs: int, ge: int, a0: int, b0: int, a1: int, b1: int, right1: int,
                      q: int) -> int:
    """
    pre: 0 <= gs and ge < 59000 and 0 <= q < 59000
    post: _ >= 0
    """
    return _check_acceptor(0, 1 if plus else -1, gs, ge, [(a0, b0), (a1, b1)], right1, q)


# --- FusionCatcher
@cond('C15', bounds='FusionCatcher, donor side, both strands; ' + _BD, encodes=ENC, codes=CODES, tokens=True,
      timeout=600)
def c15_fcatcher_donor(plus: bool, gs: int, ge: int, a0: int, b0: int, a1: int, b1: int, left1: int,
                       p: int) -> int:
    """
    pre: 0 <= gs and ge < 59000 and 0 <= p < 59000
    post: _ >= 0
    """
    return _check_donor(1, 1 if plus else -1, gs, ge, [(a0, b0), (a1, b1)], left1, p)


@cond('C15', bounds='FusionCatcher, acceptor side, both strands; ' + _BA, encodes=ENC, codes=CODES, tokens=True,
      timeout=600)
def c15_fcatcher_acceptor(plus: bool, gs: int, ge: int, a0: int, b0: int, a1: int, b1: int,
                          right1: int, q: int) -> int:
    """
    pre: 0 <= gs and ge < 59000 and 0 <= q < 59000
    post: _ >= 0
    """
    return _check_acceptor(1, 1 if plus else -1, gs, ge, [(a0, b0), (a1, b1)], right1, q)


# --- Arriba
@cond('C15', bounds='Arriba, donor side, both strands; ' + _BD, encodes=ENC, codes=CODES, tokens=True,
      timeout=600)
def c15_arriba_donor(plus: bool, gs: int, ge: int, a0: int, b0: int, a1: int, b1: int, left1: int,
                     p: int) -> int:
    """
    pre: 0 <= gs and ge < 59000 and 0 <= p < 59000
    post: _ >= 0
    """
    return _check_donor(2, 1 if plus else -1, gs, ge, [(a0, b0), (a1, b1)], left1, p)


@cond('C15', bounds='Arriba, acceptor side, both strands; ' + _BA, encodes=ENC, codes=CODES, tokens=True,
      timeout=600)
def c15_arriba_acceptor(plus: bool, gs: int, ge: int, a0: int, b0: int, a1: int, b1: int,
                        right1: int, q: int) -> int:
    """
    pre: 0 <= gs and ge < 59000 and 0 <= q < 59000
    post: _ >= 0
    """
    return _check_acceptor(2, 1 if plus else -1, gs, ge, [(a0, b0), (a1, b1)], right1, q)


# --- evidence thresholds (Arriba): "records failing the evidence thresholds ... are skipped"
_CONF = ['low', 'medium', 'high']


def _arriba_valid(s1, s2, ci, m1, m2, mi):
    from moPepGen.parser.ArribaParser import ArribaConfidence
    r = ArribaRecord.__new__(ArribaRecord)
    r.split_reads1, r.split_reads2 = s1, s2
    r.confidence = ArribaConfidence(_CONF[ci])
    got = r.is_valid(m1, m2, _CONF[mi])
    want = s1 >= m1 and s2 >= m2 and ci >= mi
    if got and not want:
        return -1                  # a record failing a threshold is accepted
    if want and not got:
        return -2                  # a record meeting every threshold is rejected
    return OK


@cond('C15', bounds='Arriba evidence thresholds: split reads of both sides and both minimum values UNBOUNDED symbolic '
      'integers, confidence and minimum confidence each in {low, medium, high}',
      encodes=['moPepGen.parser.ArribaParser.ArribaRecord.is_valid', 'moPepGen.parser.ArribaParser.ArribaConfidence'],
      codes={-1: 'a record failing an evidence threshold is accepted',
             -2: 'a record meeting every evidence threshold is rejected'}, timeout=300)
def c15_arriba_thresholds(s1: int, s2: int, ci: int, m1: int, m2: int, mi: int) -> int:
    """
    pre: 0 <= ci <= 2 and 0 <= mi <= 2
    post: _ >= 0
    """
    for a in range(3):
        for b in range(3):
            if ci == a and mi == b:
                return _arriba_valid(s1, s2, a, m1, m2, b)
    return SKIP
