"""C08 (partial): callNovelORF transcript selection for all option values, and the ORF FASTA
coordinate arithmetic.  The traversal that opens an ORF at every M is outside the claim."""
import argparse
import sys
from typing import List

import moPepGen.cli.call_novel_orf  # noqa: F401
from moPepGen.aa import AminoAcidSeqRecord
from mpgverif.hlib import OK, SKIP, NullLogger, concretize, cond, mkseq, patched, seq_points

USE_SHIM = True
USE_TOKENS = True

cno = sys.modules['moPepGen.cli.call_novel_orf']
BIOTYPES = ['lncRNA', 'pseudogene', 'miRNA']


class _Tx:
    def __init__(self, biotype):
        self.biotype = biotype


class _Model:
    def __init__(self, coding, biotype, length):
        self.is_protein_coding = coding
        self.transcript = _Tx(biotype)
        self._len = length

    def transcript_len(self):
        return self._len


class _Anno:
    def __init__(self, txs):
        self.transcripts = txs


class _PoolRec:
    last = None

    def __init__(self):
        self.added = []
        self.written = 0
        _PoolRec.last = self

    def add_peptide(self, peptide, canonical, params, skip_checking=False):
        self.added.append((peptide, skip_checking))
        return True

    def write(self, path):
        self.written += 1


class _AA:
    VariantPeptidePool = _PoolRec


def _selection(coding, bio_i, in_prot, lens, coding_flag, incl_mask, excl_mask, min_len):
    n = len(coding)
    txs = {}
    for i in range(n):
        txs[f'T{i}'] = _Model(coding[i], BIOTYPES[concretize(bio_i[i], 0, 2)], lens[i])
    proteome = {f'T{i}': 1 for i in range(n) if in_prot[i]}
    incl = [BIOTYPES[k] for k in range(3) if (incl_mask >> k) & 1]
    excl = [BIOTYPES[k] for k in range(3) if (excl_mask >> k) & 1]
    processed = []

    def fake_main(tx_id, tx_model, genome, canonical_peptides, cleavage_params, orf_assignment,
                  w2f_reassignment):
        processed.append(tx_id)
        return [f'PEP_{tx_id}'], [f'ORF_{tx_id}']

    orfs_written = []
    args = argparse.Namespace(output_path='o.fasta', output_orf='orf.fasta', cleavage_rule='trypsin',
                              cleavage_exception='auto', miscleavage=2, min_mw=500., min_length=7,
                              max_length=25, coding_novel_orf=coding_flag, min_tx_length=min_len,
                              orf_assignment='max', w2f_reassignment=False, inclusion_biotypes=None,
                              exclusion_biotypes=None, command='callNovelORF', index_dir=None)

    class _H:
        def __enter__(self):
            return self

        def __exit__(self, *a):
            return False

    with patched((cno, 'get_logger', lambda: NullLogger()),
                 (cno.common, 'validate_file_format', lambda *a, **k: None),
                 (cno.common, 'print_start_message', lambda a: None),
                 (cno.common, 'load_references', lambda **k: ('GENOME', _Anno(txs), proteome, {'CANON'})),
                 (cno.common, 'load_inclusion_exclusion_biotypes', lambda a: (incl, excl)),
                 (cno, 'call_noncoding_peptide_main', fake_main), (cno, 'aa', _AA),
                 (cno, 'write_orf', lambda orfs, handle: orfs_written.extend(orfs)),
                 (cno, 'open', lambda *a, **k: _H())):
        cno.call_novel_orf_peptide(args)
    want = []
    for i in range(n):
        m = txs[f'T{i}']
        if m.is_protein_coding:
            ok = coding_flag
        else:
            b = m.transcript.biotype
            ok = (not incl or b in incl) and not (excl and b in excl) and not in_prot[i] \
                and lens[i] >= min_len
        if ok:
            want.append(f'T{i}')
    if processed != want:
        return -1                  # processed transcripts differ from those selected by the options
    pool = _PoolRec.last
    if [p for p, _ in pool.added] != [f'PEP_{t}' for t in want]:
        return -2                  # a peptide bypassed or missed the pool filter
    if any(skip for _, skip in pool.added):
        return -3                  # a peptide was added with the limit/canonical checks skipped
    if orfs_written != [f'ORF_{t}' for t in want]:
        return -4                  # ORF FASTA does not list exactly the ORFs of the processed transcripts
    if pool.written != 1:
        return -5
    return OK


CODES = {-1: 'set of processed transcripts differs from the selection defined by the options',
         -2: 'a peptide bypassed or missed the pool filter',
         -3: 'a peptide entered the pool with the limit / canonical checks skipped',
         -4: 'ORF FASTA does not list exactly the ORFs of the processed transcripts',
         -5: 'peptide FASTA not written exactly once',
         -10: 'ORF header coordinates do not translate to the listed sequence',
         -11: 'ORF sequence is not the frame translation from the start to the next stop / end'}


_STUBS = ['common.load_references / load_inclusion_exclusion_biotypes / validate_file_format',
          'call_noncoding_peptide_main -> recorder', 'aa.VariantPeptidePool -> recorder', 'write_orf, open']


@cond('C08', bounds='1 transcript: coding flag, biotype in 3, proteome membership, UNBOUNDED length; options: '
      '--coding-novel-orf, every inclusion / exclusion biotype subset, UNBOUNDED --min-tx-length',
      encodes=['moPepGen.cli.call_novel_orf.call_novel_orf_peptide'], stubs=_STUBS, codes=CODES, tokens=True,
      timeout=600)
def c08_selection_one(c0: bool, b0: int, p0: bool, n0: int, coding_flag: bool, incl_mask: int,
                      excl_mask: int, min_len: int) -> int:
    """
    pre: 0 <= b0 <= 2
    pre: 0 <= incl_mask <= 7 and 0 <= excl_mask <= 7
    post: _ >= 0
    """
    return _selection([c0], [b0], [p0], [n0], coding_flag, concretize(incl_mask, 0, 7),
                      concretize(excl_mask, 0, 7), min_len)


@cond('C08', bounds='3 transcripts (coding flag, proteome membership, UNBOUNDED length each; biotypes fixed), '
      '--coding-novel-orf and UNBOUNDED --min-tx-length symbolic: every transcript is judged independently and '
      'in annotation order', encodes=['moPepGen.cli.call_novel_orf.call_novel_orf_peptide'], stubs=_STUBS,
      codes=CODES, tokens=True, timeout=600)
def c08_selection_three(c0: bool, c1: bool, c2: bool, p0: bool, p1: bool, p2: bool, n0: int, n1: int,
                        n2: int, coding_flag: bool, min_len: int) -> int:
    """
    post: _ >= 0
    """
    return _selection([c0, c1, c2], [0, 1, 2], [p0, p1, p2], [n0, n1, n2], coding_flag, 0, 2, min_len)


# ------------------------------------------------------------------ ORF coordinates
class _Frame:
    """stands in for tx_seq[i:]: translate() returns the symbolic frame translation"""

    def __init__(self, aa_points):
        self.p = aa_points

    def translate(self):
        return AminoAcidSeqRecord(mkseq(self.p), _id='t', name='t', description='t')


class _TxSeq:
    orf = None

    def __init__(self, frames, n):
        self.frames = frames
        self.n = n

    def __len__(self):
        return self.n

    def __getitem__(self, sl):
        return _Frame(self.frames[sl.start])


class _PG:
    def __init__(self, orf_start):
        self.orf_id_map = {(orf_start, None): 'ORF1'}


def _orf_coords(n, f0, f1, f2, orf_start, j):
    s = concretize(orf_start, 0, 8)        # the implementation computes int(orf_start / 3)
    n = concretize(n, 2, 11)
    frames = [f0, f1, f2]
    for i in range(3):
        if len(frames[i]) != (n - i) // 3:
            return SKIP                    # frame i of a transcript of n nt has (n - i) // 3 codons
    out = cno.get_orf_sequences(_PG(s), 'T1', 'G1', _TxSeq(frames, n), False)
    if len(out) != 1:
        return -10
    rec = out[0]
    frame = frames[s % 3]
    a = s // 3
    if a > len(frame):
        return SKIP
    k = a
    while k < len(frame) and frame[k] != 42:
        k += 1
    ln = k - a
    fields = rec.description.split('|')
    if fields[:3] != ['T1', 'G1', 'ORF1'] or rec.id != rec.description or rec.name != rec.description:
        return -10
    lo, hi = fields[3].split('-', 1)
    if int(lo) != s or int(hi) != s + 3 * ln:
        return -10
    got = seq_points(rec.seq)
    if len(got) != ln:
        return -11
    if 0 <= j < ln and got[j] != frame[a + j]:
        return -11
    return OK


@cond('C08', bounds='transcript of 2..11 nt whose three translated frames are any letters or *, ORF start 0..8',
      encodes=['moPepGen.cli.call_novel_orf.get_orf_sequences'],
      stubs=['transcript sequence -> object whose frame translations are symbolic residue lists',
             'pgraph.orf_id_map -> one ORF'], codes=CODES, tokens=True, timeout=600)
def c08_orf_coords(n: int, f0: List[int], f1: List[int], f2: List[int], orf_start: int, j: int) -> int:
    """
    pre: 2 <= n <= 11
    pre: len(f0) <= 3 and len(f1) <= 3 and len(f2) <= 3
    pre: all(42 <= c <= 90 for c in f0) and all(42 <= c <= 90 for c in f1) and all(42 <= c <= 90 for c in f2)
    pre: 0 <= orf_start <= 8
    post: _ >= 0
    """
    return _orf_coords(n, f0, f1, f2, orf_start, j)
