"""C11-1 (gene part): gene <-> genomic <-> transcript conversions.  The error branch of
coordinate_genomic_to_gene formats coordinates into its message, so this module runs
with the rendered-integer token model and coordinates < 60000."""
from mpgverif.harness.annobuild import anno_one_gene, exons_valid, tx_index_oracle
from mpgverif.hlib import OK, SKIP, cond

USE_SHIM = True
USE_TOKENS = True

ENC = ['moPepGen.gtf.GenomicAnnotation.coordinate_gene_to_genomic',
       'moPepGen.gtf.GenomicAnnotation.coordinate_genomic_to_gene',
       'moPepGen.gtf.GenomicAnnotation.coordinate_gene_to_transcript']
CODES = {-8: 'wrong gene coordinate', -9: 'gene->genomic not inverse of genomic->gene',
         -10: 'gene->transcript differs from the composition genomic->transcript o gene->genomic',
         -11: 'gene->transcript rejected an exonic position',
         -12: 'genomic position outside the gene mapped to a gene coordinate'}


def _check_gene(gs, ge, strand, exons, g):
    if not exons_valid(gs, ge, exons):
        return SKIP
    anno = anno_one_gene(gs, ge, strand, exons)
    want = tx_index_oracle(exons, strand, g)
    if gs <= g < ge:
        k = anno.coordinate_genomic_to_gene(g, 'G1')
        if k != (g - gs if strand == 1 else ge - 1 - g):
            return -8
        if anno.coordinate_gene_to_genomic(k, 'G1') != g:
            return -9
        try:
            kt = anno.coordinate_gene_to_transcript(k, 'G1', 'T1')
            if want is None or kt != want:
                return -10
        except ValueError:
            if want is not None:
                return -11
    else:
        try:
            anno.coordinate_genomic_to_gene(g, 'G1')
            return -12
        except ValueError:
            pass
    return OK


@cond('C11', bounds='gene span anywhere around a 2-exon transcript, coordinates < 60000, both '
      'strands, arbitrary genomic probe position', encodes=ENC, codes=CODES, tokens=True, timeout=300)
def c11_gene_2exons(gs: int, ge: int, plus: bool, a0: int, b0: int, a1: int, b1: int,
                    g: int) -> int:
    """
    pre: 0 <= gs and ge < 60000 and 0 <= g < 60000
    post: _ >= 0
    """
    return _check_gene(gs, ge, 1 if plus else -1, [(a0, b0), (a1, b1)], g)
