"""C20: decoyFasta kernels - reversal / shuffle around fixed indices, fixed-index rule,
decoy header, output order, order independence of the seeded shuffle."""
import random as _random
import sys
from typing import List

import moPepGen.cli.decoy_fasta  # noqa: F401
from Bio.Seq import Seq
from Bio.SeqRecord import SeqRecord
from mpgverif.hlib import OK, SKIP, NullLogger, cond, mkseq, patched, seq_points

USE_SHIM = True
USE_TOKENS = False

df = sys.modules['moPepGen.cli.decoy_fasta']
DecoyFasta = df.DecoyFasta


def _mk(method='reverse', enzyme=None, nterm=True, cterm=True, pattern=(), order='juxtaposed',
        decoy_string='rev_', position='prefix', seed=None, attempts=3):
    return DecoyFasta(input_path='i', output_path='o', method=method, enzyme=enzyme,
                      keep_peptide_nterm=nterm, keep_peptide_cterm=cterm,
                      non_shuffle_pattern=list(pattern), shuffle_max_attempts=attempts, seed=seed,
                      decoy_string=decoy_string, decoy_string_position=position, order=order)


# ------------------------------------------------------------------ reversal
def _reverse(p, mask):
    n = len(p)
    fixed = [i for i in range(n) if mask[i]]
    out = seq_points(DecoyFasta.reverse_sequence(mkseq(p), fixed))
    if len(out) != n:
        return -1
    free = [i for i in range(n) if not mask[i]]
    m = len(free)
    for i in range(n):
        if mask[i] and out[i] != p[i]:
            return -2              # a fixed position moved
    for k in range(m):
        if out[free[k]] != p[free[m - 1 - k]]:
            return -3              # free residues are not the reversal of the free residues
    return OK


CODES_R = {-1: 'decoy length differs from the target', -2: 'a fixed position was not kept in place',
           -3: 'free positions do not hold the reversed free residues (not a rearrangement)',
           -4: 'decoy is not a permutation of the target residues'}


@cond('C20', bounds='reverse: sequence length <= 5 (any letters), every set of fixed positions',
      encodes=['moPepGen.cli.decoy_fasta.DecoyFasta.reverse_sequence'], codes=CODES_R, timeout=400)
def c20_reverse(p: List[int], m0: bool, m1: bool, m2: bool, m3: bool, m4: bool) -> int:
    """
    pre: 1 <= len(p) <= 5
    pre: all(65 <= c <= 90 for c in p)
    post: _ >= 0
    """
    return _reverse(p, [m0, m1, m2, m3, m4][:len(p)])


# ------------------------------------------------------------------ shuffle
def _shuffle(p, mask, perm):
    """random.sample is stubbed to apply an arbitrary permutation (perm: symbolic ranks)"""
    n = len(p)
    fixed = [i for i in range(n) if mask[i]]

    def fake_sample(population, k):
        m = len(population)
        if k != m:
            raise ValueError('sample size')
        # perm[:m] must be a permutation of 0..m-1
        return [population[perm[i]] for i in range(m)]

    free = [i for i in range(n) if not mask[i]]
    m = len(free)
    for i in range(m):
        if not 0 <= perm[i] < m:
            return SKIP
        for j in range(i):
            if perm[i] == perm[j]:
                return SKIP
    with patched((df.random, 'sample', fake_sample)):
        out = seq_points(DecoyFasta.shuffle_sequence(mkseq(p), fixed))
    if len(out) != n:
        return -1
    for i in range(n):
        if mask[i] and out[i] != p[i]:
            return -2
    for k in range(m):
        if out[free[k]] != p[free[perm[k]]]:
            return -4              # free slots do not hold the sampled permutation of the free residues
    return OK


@cond('C20', bounds='shuffle: sequence length <= 4 (any letters), every set of fixed positions, random.sample '
      'replaced by an arbitrary symbolic permutation', encodes=['moPepGen.cli.decoy_fasta.DecoyFasta.shuffle_sequence'],
      stubs=['random.sample -> arbitrary permutation'], codes=CODES_R, timeout=400)
def c20_shuffle(p: List[int], m0: bool, m1: bool, m2: bool, m3: bool, r0: int, r1: int, r2: int,
                r3: int) -> int:
    """
    pre: 1 <= len(p) <= 4
    pre: all(65 <= c <= 90 for c in p)
    post: _ >= 0
    """
    return _shuffle(p, [m0, m1, m2, m3][:len(p)], [r0, r1, r2, r3])


# ------------------------------------------------------------------ fixed indices
def _fixed_basic(p, nterm, cterm, pat0, pat1):
    """no enzyme: termini flags and listed residues"""
    n = len(p)
    d = _mk(enzyme=None, nterm=nterm, cterm=cterm, pattern=[chr(pat0), chr(pat1)])
    got = d.find_fixed_indices(mkseq(p))
    for i in range(n):
        want = (i == 0 and nterm) or (i == n - 1 and cterm) or p[i] == pat0 or p[i] == pat1
        if (i in got) != want:
            return -1 if want else -2
    for g in got:
        if not 0 <= g < n:
            return -3
    return OK


CODES_F = {-1: 'a requested fixed position (terminus flag / listed residue) is not fixed',
           -2: 'a position is fixed although nothing requests it', -3: 'fixed index outside the sequence',
           -5: 'the residue at an enzymatic cleavage site is not kept in place',
           -6: 'a residue is fixed for the enzyme although it is not at a cleavage site'}


@cond('C20', bounds='fixed positions without enzyme: sequence length <= 5 (any letters), both terminus flags, '
      'two listed residues (any letters)', encodes=['moPepGen.cli.decoy_fasta.DecoyFasta.find_fixed_indices'],
      codes=CODES_F, timeout=400)
def c20_fixed_basic(p: List[int], nterm: bool, cterm: bool, pat0: int, pat1: int) -> int:
    """
    pre: 1 <= len(p) <= 5
    pre: all(65 <= c <= 90 for c in p)
    pre: 65 <= pat0 <= 90 and 65 <= pat1 <= 90
    post: _ >= 0
    """
    return _fixed_basic(p, nterm, cterm, pat0, pat1)


LETTERS = [65, 75, 80, 82]     # A K P R


def _fixed_enzyme(idx, enzyme, weak=False):
    """sequences over {A, K, P, R}; the cleavage residue itself (P1 of a C-terminal cutter,
    P1' of an N-terminal cutter) must be kept in place"""
    p = [LETTERS[i] for i in idx]
    n = len(p)
    d = _mk(enzyme=enzyme, nterm=False, cterm=False, pattern=[])
    got = d.find_fixed_indices(mkseq(p))
    for i in range(n):
        if enzyme == 'trypsin':
            # K/R followed by a residue other than P (WKP / MRP forms cannot occur over this alphabet)
            at_site = p[i] in (75, 82) and i + 1 < n and p[i + 1] != 80
        elif enzyme == 'lysc':
            at_site = p[i] == 75
        else:                      # lysn: cleaves before K
            at_site = p[i] == 75 and i > 0
        if at_site and i not in got:
            if weak and (i + 1) in got:
                continue           # the known finding: the residue after the cleavage residue is fixed
            return -5
    return OK


@cond('C20', bounds='trypsin: every sequence of length <= 4 over {A, K, P, R}; termini flags off',
      encodes=['moPepGen.cli.decoy_fasta.DecoyFasta.find_fixed_indices',
               'moPepGen.aa.AminoAcidSeqRecord.find_all_enzymatic_cleave_sites'], codes=CODES_F,
      timeout=400, expect='refuted-known')
def c20_fixed_trypsin(idx: List[int]) -> int:
    """
    pre: 1 <= len(idx) <= 4
    pre: all(0 <= i <= 3 for i in idx)
    post: _ >= 0
    """
    return _fixed_enzyme([_c(i) for i in idx], 'trypsin')


@cond('C20', bounds='lysn (N-terminal cutter): every sequence of length <= 4 over {A, K, P, R}',
      encodes=['moPepGen.cli.decoy_fasta.DecoyFasta.find_fixed_indices',
               'moPepGen.aa.AminoAcidSeqRecord.find_all_enzymatic_cleave_sites'], codes=CODES_F, timeout=400)
def c20_fixed_lysn(idx: List[int]) -> int:
    """
    pre: 1 <= len(idx) <= 4
    pre: all(0 <= i <= 3 for i in idx)
    post: _ >= 0
    """
    return _fixed_enzyme([_c(i) for i in idx], 'lysn')


@cond('C20', bounds='trypsin and lysc, weakened statement that holds beside the known finding: at every '
      'cleavage site the cleavage residue or the residue following it is kept in place; every sequence of '
      'length <= 4 over {A, K, P, R}', encodes=['moPepGen.cli.decoy_fasta.DecoyFasta.find_fixed_indices',
      'moPepGen.aa.AminoAcidSeqRecord.find_all_enzymatic_cleave_sites'], codes=CODES_F, timeout=400)
def c20_fixed_cterm_cutters_weak(idx: List[int], lysc: bool) -> int:
    """
    pre: 1 <= len(idx) <= 4
    pre: all(0 <= i <= 3 for i in idx)
    post: _ >= 0
    """
    return _fixed_enzyme([_c(i) for i in idx], 'lysc' if lysc else 'trypsin', weak=True)


def _c(i):
    for v in range(4):
        if i == v:
            return v
    raise ValueError


# ------------------------------------------------------------------ headers / order / order independence
def _pipeline(order_i, pos_i, swap, method_i, seed=7, init_calls=0):
    """two concrete targets in either input order; Bio FASTA reading / writing stubbed"""
    targets = [('TAGK', 'hdr1|x hdr3|z|2'), ('SAAR', 'hdr2|y')]
    if swap:
        targets = [targets[1], targets[0]]
    # as Bio's FASTA reader builds records: id / name = the first word of the title, description = the whole title
    # (a peptide with two header entries has a title with a blank in it)
    recs = [SeqRecord(Seq(s), id=h.split(' ')[0], name=h.split(' ')[0], description=h) for s, h in targets]
    order = ['juxtaposed', 'target_first', 'decoy_first'][order_i]
    position = ['prefix', 'suffix'][pos_i]
    method = ['reverse', 'shuffle'][method_i]
    d = _mk(method=method, order=order, position=position, decoy_string='DECOY_', seed=seed, nterm=False,
            cterm=True)
    written = []

    class _W:
        def __init__(self, handle, record2title=None):
            self.t = record2title

        def write_record(self, rec):
            written.append((self.t(rec), str(rec.seq)))

    class _H:
        def __enter__(self):
            return self

        def __exit__(self, *a):
            return False

    state = {'calls': init_calls}

    def fake_sample(population, k):
        # a stateful stand-in for the seeded generator: the k-th call rotates by k+1
        state['calls'] += 1
        r = state['calls'] % max(len(population), 1)
        return list(population[r:]) + list(population[:r])

    class _Rnd:
        sample = staticmethod(fake_sample)

        @staticmethod
        def seed(x):
            state['calls'] = 0

    with patched((df, 'open', lambda *a, **k: _H()), (df.SeqIO, 'parse', lambda h, format=None: iter(recs)),
                 (df.FastaIO, 'FastaWriter', _W), (df, 'get_logger', lambda: NullLogger()),
                 (df, 'random', _Rnd)):
        d.main()
    return written


def _check_pipeline(order_i, pos_i, method_i):
    a = _pipeline(order_i, pos_i, False, method_i)
    b = _pipeline(order_i, pos_i, True, method_i)
    if sorted(a) != sorted(b):
        return -1                  # output (as a set of records) depends on the order of the input
    if len(a) != 4:
        return -2
    tgt = {'hdr1|x hdr3|z|2': 'TAGK', 'hdr2|y': 'SAAR'}
    dec = {}
    for h, s in a:
        if h in tgt:
            if s != tgt[h]:
                return -3          # target changed
        else:
            base = h[len('DECOY_'):] if pos_i == 0 else h[:-len('DECOY_')]
            ok = h.startswith('DECOY_') if pos_i == 0 else h.endswith('DECOY_')
            if not ok or base not in tgt or base in dec:
                return -4          # decoy header is not the target header with the decoy string attached
            dec[base] = s
            if sorted(s) != sorted(tgt[base]) or s[-1] != tgt[base][-1]:
                return -5          # not a rearrangement keeping the C-terminus
    if set(dec) != set(tgt):
        return -6                  # not exactly one decoy per target
    kinds = ['T' if h in tgt else 'D' for h, _ in a]
    want = [['T', 'D', 'T', 'D'], ['T', 'T', 'D', 'D'], ['D', 'D', 'T', 'T']][order_i]
    if kinds != want:
        return -7                  # requested output order not respected
    if order_i == 0:
        for k in (0, 2):
            th = a[k][0]
            dh = a[k + 1][0]
            if (dh[len('DECOY_'):] if pos_i == 0 else dh[:-len('DECOY_')]) != th:
                return -8          # juxtaposed: decoy does not follow its own target
    return OK


@cond('C20', bounds='two targets in both input orders x 3 output orders x prefix/suffix x reverse/shuffle (seeded); '
      'FASTA reading/writing stubbed', encodes=['moPepGen.cli.decoy_fasta.DecoyFasta.main',
      'moPepGen.cli.decoy_fasta.DecoyFasta.generate_decoy_sequence',
      'moPepGen.cli.decoy_fasta.DecoyFasta.iterate_target_decoy_database'],
      stubs=['SeqIO.parse, FastaIO.FastaWriter, open, get_logger', 'random -> stateful deterministic stand-in (k-th sample call rotates by k; seed resets the state)'],
      codes={-1: 'output depends on the order of targets in the input', -2: 'record count wrong',
             -3: 'a target was modified', -4: 'decoy header is not the target header with the decoy string',
             -5: 'decoy is not a rearrangement of its target keeping the fixed C-terminus',
             -6: 'not exactly one decoy per target', -7: 'requested output order not respected',
             -8: 'juxtaposed order: decoy not next to its own target'}, timeout=300)
def c20_pipeline(order_i: int, pos_i: int, method_i: int) -> int:
    """
    pre: 0 <= order_i <= 2 and 0 <= pos_i <= 1 and 0 <= method_i <= 1
    post: _ >= 0
    """
    return _check_pipeline(order_i, pos_i, method_i)


@cond('C20', bounds='shuffle of two targets; requested seed = ANY integer (0 and negatives included); state of the global '
      'generator before the run symbolic (two runs from different states)', encodes=['moPepGen.cli.decoy_fasta.DecoyFasta.main'],
      stubs=['SeqIO.parse, FastaIO.FastaWriter, open, get_logger', 'random -> stateful deterministic stand-in (seed resets '
             'the state; without seeding the output depends on the prior state)'],
      codes={-1: 'with a seed given, two runs from different generator states give different decoys'}, timeout=300)
def c20_seed_reproducible(seed: int, s1: int, s2: int, order_i: int) -> int:
    """
    pre: 0 <= s1 <= 3 and 0 <= s2 <= 3
    pre: 0 <= order_i <= 2
    post: _ >= 0
    """
    a = _pipeline(order_i, 0, False, 1, seed=seed, init_calls=s1)
    b = _pipeline(order_i, 0, False, 1, seed=seed, init_calls=s2)
    return OK if a == b else -1
