"""Command loops that carry state from one record / file to the next (a place where realistic slips hide):
parseRMATS (C16: every given event file is read with its own event type, the read-count thresholds reach every
record, all emitted records are written once, grouped by transcript) and mergeFasta (C18: union over any number of
input files, header entries united)."""
import argparse
import sys

import moPepGen.cli.merge_fasta  # noqa: F401
import moPepGen.cli.parse_rmats  # noqa: F401
from mpgverif.hlib import OK, SKIP, NullLogger, concretize, cond, patched

USE_SHIM = True
USE_TOKENS = False

prm = sys.modules['moPepGen.cli.parse_rmats']
mrg = sys.modules['moPepGen.cli.merge_fasta']
EVENTS = ['SE', 'A5SS', 'A3SS', 'MXE', 'RI']
ARGN = ['skipped_exon', 'alternative_5_splicing', 'alternative_3_splicing', 'mutually_exclusive_exons', 'retained_intron']


class _Var:
    def __init__(self, uid, tx):
        self.uid, self.transcript_id = uid, tx

    def __hash__(self):
        return hash(self.uid)

    def __eq__(self, o):
        return self.uid == o.uid

    def __lt__(self, o):
        return self.uid < o.uid


class _Rec:
    def __init__(self, event, k, n_out, tx, log):
        self.event, self.k, self.n_out, self.tx, self.log = event, k, n_out, tx, log
        self.gene_id = 'G'

    def convert_to_variant_records(self, anno, genome, min_ijc, min_sjc):
        self.log.append((self.event, self.k, min_ijc, min_sjc))
        return [_Var(f'{self.event}{self.k}_{j}', ['T0', 'T1'][self.tx]) for j in range(self.n_out)]


class _Anno:
    def get_transcript_rank(self):
        return {'T0': 0, 'T1': 1}


def _rmats(given, n_out, tx, min_ijc, min_sjc):
    """given[e]: is the file of event type e supplied; each supplied file holds one record that emits n_out[e]
    variant records for transcript tx[e]"""
    log = []
    written = []
    holder = {}
    real_tally = prm.TallyTable

    class Tally(real_tally):
        def __init__(self, logger):
            super().__init__(logger)
            holder['t'] = self

    def fake_parse(path, event_type):
        e = EVENTS.index(event_type)
        if path != f'file_{event_type}':
            holder['mismatch'] = True
        return iter([_Rec(event_type, 0, n_out[e], tx[e], log)])

    ns = {ARGN[e]: (f'file_{EVENTS[e]}' if given[e] else None) for e in range(5)}
    args = argparse.Namespace(output_path='o.gvf', min_ijc=min_ijc, min_sjc=min_sjc, command='parseRMATS', source='AS',
                              index_dir=None, **ns)
    with patched((prm, 'get_logger', lambda: NullLogger()), (prm, 'TallyTable', Tally),
                 (prm.common, 'validate_file_format', lambda *a, **k: None),
                 (prm.common, 'print_start_message', lambda a: None),
                 (prm.common, 'load_references', lambda *a, **k: ('GENOME', _Anno(), None, None)),
                 (prm.common, 'generate_metadata', lambda a: 'META'),
                 (prm.RMATSParser, 'parse', fake_parse),
                 (prm.seqvar.io, 'write', lambda variants, path, meta: written.extend(v.uid for v in variants))):
        prm.parse_rmats(args)
    if holder.get('mismatch'):
        return -1                  # a file was read as another event type
    want_calls = [(EVENTS[e], 0, min_ijc, min_sjc) for e in range(5) if given[e]]
    if sorted(log) != sorted(want_calls):
        return -2                  # a supplied file was not read / thresholds not passed to every record
    exp = []
    for t in (0, 1):
        ids = []
        for e in range(5):
            if given[e] and tx[e] == t:
                ids += [f'{EVENTS[e]}0_{j}' for j in range(n_out[e])]
        exp += sorted(ids)
    if written != exp:
        return -3                  # written records are not exactly the emitted ones, grouped by transcript
    t = holder['t']
    n = len(want_calls)
    ok = len([e for e in range(5) if given[e] and n_out[e] > 0])
    if t.total != n or t.succeed != ok or t.skipped != n - ok:
        return -4
    return OK


@cond('C16', bounds='parseRMATS command: every subset of the five event files, one record per file; the SE and MXE records '
      'emit 0..2 GVF records (the others 1), the SE and A5SS records for either of two transcripts; UNBOUNDED symbolic '
      '--min-ijc / --min-sjc', encodes=['moPepGen.cli.parse_rmats.parse_rmats'],
      stubs=['RMATSParser.parse -> fake records', 'common.load_references / validate_file_format / generate_metadata',
             'seqvar.io.write -> recorder', 'get_logger'],
      codes={-1: 'an event file was parsed as another event type', -2: 'a supplied file was not read, or the read-count '
             'thresholds did not reach every record unchanged', -3: 'written records are not exactly the emitted ones '
             '(each once, grouped by transcript rank)', -4: 'tally of read / converted / skipped records wrong'},
      timeout=400)
def c16_cli_loop(g0: bool, g1: bool, g2: bool, g3: bool, g4: bool, n0: int, n3: int, t0: bool, t1: bool,
                 min_ijc: int, min_sjc: int) -> int:
    """
    pre: 0 <= n0 <= 2 and 0 <= n3 <= 2
    post: _ >= 0
    """
    n_out = [concretize(n0, 0, 2), 1, 1, concretize(n3, 0, 2), 1]
    return _rmats([g0, g1, g2, g3, g4], n_out, [1 if t0 else 0, 1 if t1 else 0, 0, 1, 0], min_ijc, min_sjc)


# ------------------------------------------------------------------ mergeFasta
class _Pep:
    def __init__(self, seq, label):
        self.seq, self.label = seq, label


class _Pool:
    def __init__(self, peptides):
        self.peptides = list(peptides)
        self.dedup = 0
        self.written = 0

    def add_peptide(self, peptide, canonical_peptides, cleavage_params=None, skip_checking=False):
        if not skip_checking or canonical_peptides:
            raise AssertionError('merge must not filter')
        for p in self.peptides:
            if p.seq == peptide.seq:
                p.label = p.label + ' ' + peptide.label
                return
        self.peptides.append(_Pep(peptide.seq, peptide.label))

    def remove_redundant_headers(self):
        self.dedup += 1

    def write(self, path):
        self.written += 1


def _merge_cli(n_files, q, dedup):
    """file i holds one peptide with sequence S<q[i]> and header entry L<i>"""
    pools = []
    files = [f'f{i}.fasta' for i in range(n_files)]
    opened = []

    class _H:
        def __init__(self, path):
            self.path = path

        def __enter__(self):
            return self

        def __exit__(self, *a):
            return False

    def fake_open(path, mode='r'):
        opened.append(path)
        return _H(path)

    class _VPP:
        @staticmethod
        def load(handle):
            i = files.index(handle.path)
            p = _Pool([_Pep(f'S{q[i]}', f'L{i}')])
            pools.append(p)
            return p

    args = argparse.Namespace(input_path=files, output_path='o.fasta', dedup_header=dedup, command='mergeFasta')
    with patched((mrg, 'get_logger', lambda: NullLogger()), (mrg.common, 'validate_file_format', lambda *a, **k: None),
                 (mrg, 'open', fake_open), (mrg, 'VariantPeptidePool', _VPP)):
        mrg.merge_fasta(args)
    if opened != files:
        return -1                  # an input file was not read (or read twice)
    out = pools[0]
    want = {}
    for i in range(n_files):
        want.setdefault(f'S{q[i]}', []).append(f'L{i}')
    got = {p.seq: p.label.split(' ') for p in out.peptides}
    if len(got) != len(out.peptides) or got != want:
        return -2                  # output is not the union of sequences with the union of header entries
    if out.written != 1 or any(p.written for p in pools[1:]):
        return -3
    if out.dedup != (1 if dedup else 0):
        return -4
    return OK


@cond('C18', bounds='mergeFasta command: 1..4 input files, one peptide each over 2 sequences (every arrangement), '
      '--dedup-header symbolic', encodes=['moPepGen.cli.merge_fasta.merge_fasta'],
      stubs=['VariantPeptidePool -> recording stand-in (union semantics decided by c18_merge)', 'open, get_logger, '
             'common.validate_file_format'],
      codes={-1: 'an input file was not read exactly once', -2: 'output is not the union of the sequences with the union '
             'of their header entries', -3: 'output not written exactly once from the merged pool',
             -4: '--dedup-header not honoured'}, timeout=300)
def c18_merge_cli(n_files: int, q0: bool, q1: bool, q2: bool, q3: bool, dedup: bool) -> int:
    """
    pre: 1 <= n_files <= 4
    post: _ >= 0
    """
    n = concretize(n_files, 1, 4)
    return _merge_cli(n, [1 if x else 0 for x in (q0, q1, q2, q3)], dedup)
