"""C01 / C02, stage 1 of 5 only: the transcript variant graph built by
ThreeFrameTVG.init_three_frames + create_variant_graph spells exactly the haplotypes.

* C01 (completeness): for every reading frame f and every subset H of mutually compatible
  supplied variants, some root-to-leaf path of frame f spells apply(H, tx)[f:] and is annotated
  with exactly H.
* C02 (soundness): every root-to-leaf path of frame f spells apply(H, tx)[f:] for the set H of
  variants annotated on it, and H is compatible (no two variants overlap).

The transcript is a concrete string of pairwise distinct letters and every ALT allele uses letters of
its own, so a spelled sequence determines its provenance uniquely; variant kinds, positions and
lengths are symbolic (bounded), and it is the real code's branch conditions on them that the solver
explores.  Codon alignment, translation, cleavage graph and traversal are outside this claim."""
from typing import List

from moPepGen.SeqFeature import FeatureLocation
from moPepGen.dna import DNASeqRecordWithCoordinates
from moPepGen.seqvar.VariantRecord import VariantRecord
from moPepGen.svgraph.ThreeFrameTVG import ThreeFrameTVG
from Bio.Seq import Seq
from mpgverif.hlib import OK, SKIP, concretize, cond

USE_SHIM = True
USE_TOKENS = False

TX = 'ABCDEFGHIJKL'
ALTS = ['uv', 'wx', 'yz']
UTR5 = 'GCTAGCTTGACCTGACTAGCTAGGCTAGCC'
CDS = ('ATGGCTTCTACTGAAGACCTGGTTGGTCACATCCAGAACAAA' 'GCTGCCGACGAAGGTCTGGTTTCTACTAAA'
       'GGTGGCCACCTGCTCGACGAATCTTCCCGT' 'GTTGTCCTGATCGACGATGAATTCTTTTACGCTAAA')
UTR3 = 'GCCTCCTGACTCCGTCCGGTCCTTGACCCC'


def lift_two_variants(k1, p1, l1, k2, p2, l2, **_):
    """Command-level confirmation of a stage-1 witness: the same two variants (kind, relative position,
    length) are placed in the coding region of a small single-exon gene and the REAL callVariant output is
    compared with the definitional digest of every haplotype.  True = a variant peptide is missing."""
    from mpgverif import lift
    genome = UTR5 + CDS + 'TAA' + UTR3
    base = len(UTR5) + 12          # inside the first tryptic peptide, after the start codon
    variants = []
    for k, (kind, pos, ln) in enumerate(((k1, p1, l1), (k2, p2, l2))):
        s = base + pos
        if kind == 0:
            variants.append((s, genome[s], 'C' if genome[s] != 'C' else 'G'))
        elif kind == 1:
            variants.append((s, genome[s], genome[s] + 'GCA'[:ln] if ln < 3 else genome[s] + 'GCA'))
        else:
            variants.append((s, genome[s:s + 1 + ln], genome[s]))
    got = lift.run_callvariant(UTR5, CDS, UTR3, variants)
    want = lift.haplotype_peptides(UTR5, CDS, UTR3, variants)
    return bool(want - got)


ENC = ['moPepGen.svgraph.ThreeFrameTVG.ThreeFrameTVG.init_three_frames / create_variant_graph / apply_variant / '
       'splice / add_edge', 'moPepGen.svgraph.TVGNode.TVGNode.truncate_right / get_reference_next',
       'moPepGen.seqvar.VariantRecord.VariantRecord.is_frameshifting / frames_shifted / to_end_inclusion',
       'moPepGen.seqvar.VariantRecord.find_mnvs_from_adjacent_variants',
       'moPepGen.dna.DNASeqRecord.DNASeqRecordWithCoordinates.__getitem__ / get_query_index']


def _variant(n, k, kind, pos, ln):
    """k-th variant.  kind 0 SNV, 1 insertion of ln bases, 2 deletion of ln bases (anchored)"""
    tx = TX[:n]
    if pos >= n:
        return None
    if kind == 0:
        s, e = pos, pos + 1
        ref, alt = tx[s:e], ALTS[k][0]
        typ = 'SNV'
    elif kind == 1:
        s, e = pos, pos + 1
        ref, alt = tx[s:e], tx[s] + ALTS[k][:ln]
        typ = 'INDEL'
    else:
        s, e = pos, pos + 1 + ln
        ref, alt = tx[s:e], tx[s]
        typ = 'INDEL'
    if e > n:
        return None
    return VariantRecord(location=FeatureLocation(seqname='T1', start=s, end=e), ref=ref, alt=alt,
                         _type=typ, _id=f'V{k}', attrs={'GENE_ID': 'G1'})


def _apply(n, chosen):
    """haplotype string: chosen = list of (s, e, alt) non-overlapping, applied right to left"""
    seq = TX[:n]
    for s, e, alt in sorted(chosen, reverse=True):
        seq = seq[:s] + alt + seq[e:]
    return seq


def _paths(graph):
    """all root-to-leaf paths per frame: (frame, spelled string, frozenset of variant ids)"""
    out = []
    for f in range(3):
        root = graph.reading_frames[f]
        stack = [(root, '', frozenset())]
        guard = 0
        while stack:
            node, spelled, vs = stack.pop()
            guard += 1
            if guard > 4000:
                raise RuntimeError('path enumeration does not terminate')
            if node.seq is not None:
                spelled = spelled + str(node.seq.seq)
                for v in node.variants:
                    if v.variant.is_merged_mnv():
                        vs = vs | set(v.variant.attrs['INDIVIDUAL_VARIANT_IDS'])
                    else:
                        vs = vs | {v.variant.id}
            nxt = [e.out_node for e in node.out_edges]
            if not nxt:
                out.append((f, spelled, vs))
            for m in nxt:
                stack.append((m, spelled, vs))
    return out


def _build(n, specs, known_orf, orf_start):
    variants = []
    for k, (kind, pos, ln) in enumerate(specs):
        v = _variant(n, k, kind, pos, ln)
        if v is None:
            return None, None
        variants.append(v)
    variants.sort()
    for v in variants:
        # taken BEFORE graph construction, which may rewrite a record in place (end-inclusion form)
        v.attrs['_ORIG'] = (v.id, v.location.start, v.location.end, v.alt)
    orf = FeatureLocation(start=orf_start, end=n - (n - orf_start) % 3) if known_orf else None
    seq = DNASeqRecordWithCoordinates(seq=Seq(TX[:n]), locations=[], orf=orf)
    g = ThreeFrameTVG(seq=seq, _id='T1', has_known_orf=known_orf, max_adjacent_as_mnv=2)
    g.init_three_frames()
    g.create_variant_graph(variants, None, None, None)
    return g, variants


def _check(n, specs, mode, adjacent_mode=0, start_anchored=False):
    """mode 0: completeness (C01), 1: soundness (C02); non-coding transcript: all frames active"""
    g, variants = _build(n, specs, False, 0)
    if g is None:
        return SKIP
    # variants the graph is obliged to consider: start >= 3 (nothing is applied to the first 3 nt), or an
    # indel anchored on nucleotide 2 (it changes nothing before position 3; the code re-anchors it)
    usable = []
    for v in variants:
        vid, s, e, alt = v.attrs['_ORIG']
        if s < 3 and not (start_anchored and s == 2 and len(variants) == 1 and specs[0][0] != 0):
            return SKIP
        usable.append((vid, s, e, alt))
    paths = _paths(g)
    kinds = {f'V{k}': spec[0] for k, spec in enumerate(specs)}
    ids = [u[0] for u in usable]
    by_id = {u[0]: u for u in usable}

    def compatible(sub):
        ivs = sorted((by_id[i][1], by_id[i][2]) for i in sub)
        return all(ivs[k][1] <= ivs[k + 1][0] for k in range(len(ivs) - 1))

    def obliged(sub):
        """documented limits of adjacent-variant merging (--max-adjacent-as-mnv, default 2): a chain of
        directly adjacent variants is represented only if it has <= 2 members of the same merge class
        (SNV with SNV, indel with indel).  `adjacent_mode` selects which side of that limit is checked."""
        items = sorted((by_id[i][1], by_id[i][2], kinds[i]) for i in sub)
        run = 1
        within = True
        for k in range(len(items) - 1):
            if items[k][1] == items[k + 1][0]:
                run += 1
                if run > 2 or (items[k][2] == 0) != (items[k + 1][2] == 0):
                    within = False
            else:
                run = 1
        return within

    subsets = [[]]
    for i in ids:
        subsets += [s + [i] for s in subsets]
    if mode == 0:
        for sub in subsets:
            if not compatible(sub):
                continue
            if obliged(sub) != (adjacent_mode == 0):
                continue
            hap = _apply(n, [by_id[i][1:] for i in sub])
            for f in range(3):
                want = hap[f:]
                if not any(pf == f and sp == want and vs == frozenset(sub) for pf, sp, vs in paths):
                    return -1      # a haplotype is not spelled by any path of this frame
        return OK
    for pf, sp, vs in paths:
        sub = sorted(vs)
        if any(i not in by_id for i in sub):
            return -2
        if not compatible(sub):
            return -3              # a path combines overlapping variants
        hap = _apply(n, [by_id[i][1:] for i in sub])
        if sp != hap[pf:]:
            return -4              # a path spells a sequence no haplotype has
    return OK


CODES = {-1: 'a haplotype (compatible subset of the supplied variants) is not spelled by any path of a reading frame',
         -2: 'a path is annotated with an unknown variant', -3: 'a path combines overlapping variants',
         -4: 'a path spells a sequence that is not the haplotype of the variants annotated on it'}
_B1 = ('non-coding transcript of 9..12 distinct letters; 1 variant: SNV, insertion of 1-2 nt or deletion of 1-3 nt at '
       'any position >= 3; all three reading frames')
_B2 = ('non-coding transcript of 11 distinct letters; 2 variants, each SNV / insertion of 1-2 nt / deletion of 1-2 nt '
       'at any positions 3..7 (overlapping, adjacent or apart); all three reading frames; up to 4 haplotypes; '
       'haplotypes beyond the documented adjacent-merging limit are not obligations')


def _spec(kind, pos, ln, n):
    kind = concretize(kind, 0, 2)
    pos = concretize(pos, 3, 11)
    ln = concretize(ln, 1, 3)
    return (kind, pos, ln)


@cond('C01', bounds=_B1, encodes=ENC, codes=CODES, timeout=600)
def c01_one_variant(n: int, kind: int, pos: int, ln: int) -> int:
    """
    pre: 9 <= n <= 12
    pre: 0 <= kind <= 2 and 3 <= pos <= 11 and 1 <= ln <= 3
    post: _ >= 0
    """
    n = concretize(n, 9, 12)
    return _check(n, [_spec(kind, pos, ln, n)], 0)


@cond('C02', bounds=_B1, encodes=ENC, codes=CODES, timeout=600)
def c02_one_variant(n: int, kind: int, pos: int, ln: int) -> int:
    """
    pre: 9 <= n <= 12
    pre: 0 <= kind <= 2 and 3 <= pos <= 11 and 1 <= ln <= 3
    post: _ >= 0
    """
    n = concretize(n, 9, 12)
    return _check(n, [_spec(kind, pos, ln, n)], 1)


@cond('C01', bounds='first variant SNV; ' + _B2, encodes=ENC, codes=CODES, timeout=600)
def c01_two_variants_snv(p1: int, l1: int, k2: int, p2: int, l2: int) -> int:
    """
    pre: 3 <= p1 <= 7 and 1 <= l1 <= 2
    pre: 0 <= k2 <= 2 and 3 <= p2 <= 7 and 1 <= l2 <= 2
    post: _ >= 0
    """
    return _check(11, [_spec(0, p1, l1, 11), _spec(k2, p2, l2, 11)], 0)


@cond('C01', bounds='first variant INS; ' + _B2, encodes=ENC, codes=CODES, timeout=600)
def c01_two_variants_ins(p1: int, l1: int, k2: int, p2: int, l2: int) -> int:
    """
    pre: 3 <= p1 <= 7 and 1 <= l1 <= 2
    pre: 0 <= k2 <= 2 and 3 <= p2 <= 7 and 1 <= l2 <= 2
    post: _ >= 0
    """
    return _check(11, [_spec(1, p1, l1, 11), _spec(k2, p2, l2, 11)], 0)


@cond('C01', bounds='first variant DEL; ' + _B2, encodes=ENC, codes=CODES, timeout=600)
def c01_two_variants_del(p1: int, l1: int, k2: int, p2: int, l2: int) -> int:
    """
    pre: 3 <= p1 <= 7 and 1 <= l1 <= 2
    pre: 0 <= k2 <= 2 and 3 <= p2 <= 7 and 1 <= l2 <= 2
    post: _ >= 0
    """
    return _check(11, [_spec(2, p1, l1, 11), _spec(k2, p2, l2, 11)], 0)


@cond('C02', bounds='first variant SNV; ' + _B2, encodes=ENC, codes=CODES, timeout=600)
def c02_two_variants_snv(p1: int, l1: int, k2: int, p2: int, l2: int) -> int:
    """
    pre: 3 <= p1 <= 7 and 1 <= l1 <= 2
    pre: 0 <= k2 <= 2 and 3 <= p2 <= 7 and 1 <= l2 <= 2
    post: _ >= 0
    """
    return _check(11, [_spec(0, p1, l1, 11), _spec(k2, p2, l2, 11)], 1)


@cond('C02', bounds='first variant INS; ' + _B2, encodes=ENC, codes=CODES, timeout=600)
def c02_two_variants_ins(p1: int, l1: int, k2: int, p2: int, l2: int) -> int:
    """
    pre: 3 <= p1 <= 7 and 1 <= l1 <= 2
    pre: 0 <= k2 <= 2 and 3 <= p2 <= 7 and 1 <= l2 <= 2
    post: _ >= 0
    """
    return _check(11, [_spec(1, p1, l1, 11), _spec(k2, p2, l2, 11)], 1)


@cond('C02', bounds='first variant DEL; ' + _B2, encodes=ENC, codes=CODES, timeout=600)
def c02_two_variants_del(p1: int, l1: int, k2: int, p2: int, l2: int) -> int:
    """
    pre: 3 <= p1 <= 7 and 1 <= l1 <= 2
    pre: 0 <= k2 <= 2 and 3 <= p2 <= 7 and 1 <= l2 <= 2
    post: _ >= 0
    """
    return _check(11, [_spec(2, p1, l1, 11), _spec(k2, p2, l2, 11)], 1)


@cond('C01', bounds='KNOWN FINDING CLASS: two directly adjacent variants of different merge classes (SNV next to the '
      'anchor of an indel) on a transcript of 11 letters: the haplotype carrying both must be spelled',
      encodes=ENC, codes=CODES, timeout=600, expect='refuted-known', lift=lift_two_variants)
def c01_adjacent_mixed_kinds(k1: int, p1: int, l1: int, k2: int, p2: int, l2: int) -> int:
    """
    pre: 0 <= k1 <= 2 and 3 <= p1 <= 8 and 1 <= l1 <= 2
    pre: 0 <= k2 <= 2 and 3 <= p2 <= 8 and 1 <= l2 <= 2
    post: _ >= 0
    """
    return _check(11, [_spec(k1, p1, l1, 11), _spec(k2, p2, l2, 11)], 0, adjacent_mode=1)


_BA = ('non-coding transcript of 9..12 distinct letters; 1 indel (insertion of 1-2 nt or deletion of 1-3 nt) anchored on '
       'nucleotide 2, the last one that is never altered (the code re-anchors it to the following base)')


@cond('C01', bounds=_BA, encodes=ENC + ['moPepGen.seqvar.VariantRecord.VariantRecord.to_end_inclusion'], codes=CODES,
      timeout=300)
def c01_start_anchored_indel(n: int, ins: bool, ln: int) -> int:
    """
    pre: 9 <= n <= 12
    pre: 1 <= ln <= 3
    post: _ >= 0
    """
    return _check(concretize(n, 9, 12), [(1 if ins else 2, 2, concretize(ln, 1, 3))], 0, start_anchored=True)


@cond('C02', bounds=_BA, encodes=ENC + ['moPepGen.seqvar.VariantRecord.VariantRecord.to_end_inclusion'], codes=CODES,
      timeout=300)
def c02_start_anchored_indel(n: int, ins: bool, ln: int) -> int:
    """
    pre: 9 <= n <= 12
    pre: 1 <= ln <= 3
    post: _ >= 0
    """
    return _check(concretize(n, 9, 12), [(1 if ins else 2, 2, concretize(ln, 1, 3))], 1, start_anchored=True)


_B3 = ('non-coding transcript of 10 distinct letters; 3 SNVs at any positions 3..7 (same position = alternative '
       'alleles, adjacent = merged MNVs); all three reading frames; up to 8 haplotypes')


def _three(p1, p2, p3, mode):
    specs = [(0, concretize(p, 3, 7), 1) for p in (p1, p2, p3)]
    return _check(10, specs, mode)


@cond('C01', bounds=_B3, encodes=ENC, codes=CODES, timeout=900)
def c01_three_snvs(p1: int, p2: int, p3: int) -> int:
    """
    pre: 3 <= p1 <= 7 and 3 <= p2 <= 7 and 3 <= p3 <= 7
    post: _ >= 0
    """
    return _three(p1, p2, p3, 0)


@cond('C02', bounds=_B3, encodes=ENC, codes=CODES, timeout=900)
def c02_three_snvs(p1: int, p2: int, p3: int) -> int:
    """
    pre: 3 <= p1 <= 7 and 3 <= p2 <= 7 and 3 <= p3 <= 7
    post: _ >= 0
    """
    return _three(p1, p2, p3, 1)
