"""C19: VariantPeptidePool.filter keeps exactly the entries satisfying the stated rule.

Header entries are concrete label strings of each kind (so that the label parser runs on
concrete text); expression values, cut-off, coding-set membership, denylist membership, the
keep-* flags and the miscleavage range are symbolic.  Expression values are integers:
real-valued levels are outside the claim (z3 answers unknown on the float paths); the only
arithmetic involved is `expr >= cutoff`."""
from Bio.Seq import Seq

from moPepGen import VARIANT_PEPTIDE_SOURCE_DELIMITER
from moPepGen.aa import AminoAcidSeqRecord
from moPepGen.aa.VariantPeptidePool import VariantPeptidePool
from mpgverif.hlib import OK, SKIP, cond

USE_SHIM = True
USE_TOKENS = False

# label, transcripts, exempt from the expression test (fusion / circRNA / splice-altering), circRNA?
KINDS = [
    ('ENST0001|SNV-10-A-T|1', ['ENST0001'], False, False),
    ('ENST0001|SE_10-20-30-40|1', ['ENST0001'], True, False),
    ('FUSION-ENST0001:10-ENST0002:20|1', ['ENST0001', 'ENST0002'], True, False),
    ('CIRC-ENST0001-10:20|SNV-5-A-T|1', ['ENST0001'], True, True),
    ('ENST0001|ENSG0001|ORF1|1', ['ENST0001'], False, False),
    ('ENST0001|SECT-101|1', ['ENST0001'], False, False),
    ('ENST0001|W2F-5|1', ['ENST0001'], False, False),
    ('ENST0001|ENSG0001|W2F-5|ORF2|1', ['ENST0001'], False, False),
    ('ENST0001|RES-101-A-G|INDEL-55-CC-C|2', ['ENST0001'], False, False),
]
# tryptic peptides with 0, 1, 2 internal cleavage sites
PEPS = ['SSSSSSSSSR', 'SSSSKSSSSR', 'SSKSSKSSSR', 'SSCKDSSSSR', 'SSCKDSKSSR', 'SRRHSSDKDR']
# missed cleavages under trypsin WITH its exceptions (CKD, DKD block the K; in RRH only the second R is blocked), as callVariant digests
MISC = [0, 1, 2, 0, 1, 1]
ENC = ['moPepGen.aa.VariantPeptidePool.VariantPeptidePool.filter',
       'moPepGen.aa.VariantPeptideLabel.VariantPeptideInfo.from_variant_peptide_minimal / get_transcript_ids / '
       'is_fusion / is_circ_rna / is_splice_altering',
       'moPepGen.aa.VariantPeptideIdentifier.parse_variant_peptide_id']


def _rule(kind, e1, e2, cutoff, use_expr, c1, c2, denied, keep_canon, keep_cod, keep_non):
    label, txs, exempt, is_circ = KINDS[kind]
    coding = {'ENST0001': c1, 'ENST0002': c2}
    expr = {'ENST0001': e1, 'ENST0002': e2}
    canonical = (not is_circ) and coding[txs[0]]
    if denied and not (keep_canon and canonical):
        return False
    if keep_non and not any(coding[t] for t in txs):
        return True
    if keep_cod and all(coding[t] for t in txs):
        return True
    if not use_expr:
        return True
    return exempt or all(expr[t] >= cutoff for t in txs)


def _run(kinds, pep_i, e1, e2, cutoff, use_expr, c1, c2, denied, keep_canon, keep_cod, keep_non,
         lo_kind, lo, hi_kind, hi):
    labels = [KINDS[k][0] for k in kinds]
    seq = PEPS[pep_i]
    pool = VariantPeptidePool()
    rec = AminoAcidSeqRecord(Seq(seq), _id='x', name='x',
                             description=VARIANT_PEPTIDE_SOURCE_DELIMITER.join(labels))
    pool.peptides.add(rec)
    coding = [t for t, c in (('ENST0001', c1), ('ENST0002', c2)) if c]
    rng = (lo if lo_kind else None, hi if hi_kind else None)
    out = pool.filter(exprs={'ENST0001': e1, 'ENST0002': e2} if use_expr else None, cutoff=cutoff,
                      coding_transcripts=coding, keep_all_noncoding=keep_non, keep_all_coding=keep_cod,
                      enzyme='trypsin', miscleavage_range=rng,
                      denylist={Seq(seq)} if denied else {Seq('AAAA')}, keep_canonical=keep_canon)
    misc = MISC[pep_i]
    in_range = (not lo_kind or misc >= lo) and (not hi_kind or misc <= hi)
    want = [labels[i] for i, k in enumerate(kinds)
            if _rule(k, e1, e2, cutoff, use_expr, c1, c2, denied, keep_canon, keep_cod, keep_non)]
    got = list(out.peptides)
    if not in_range or not want:
        return OK if not got else -1          # peptide kept although no entry satisfies the rule / out of range
    if len(got) != 1:
        return -2                             # peptide dropped although an entry satisfies the rule
    if str(got[0].seq) != seq:
        return -3                             # sequence changed
    if got[0].description != VARIANT_PEPTIDE_SOURCE_DELIMITER.join(want):
        return -4                             # kept entries differ from those satisfying the rule
    # idempotence
    again = out.filter(exprs={'ENST0001': e1, 'ENST0002': e2} if use_expr else None, cutoff=cutoff,
                       coding_transcripts=coding, keep_all_noncoding=keep_non, keep_all_coding=keep_cod,
                       enzyme='trypsin', miscleavage_range=rng,
                       denylist={Seq(seq)} if denied else {Seq('AAAA')}, keep_canonical=keep_canon)
    g2 = list(again.peptides)
    if len(g2) != 1 or g2[0].description != got[0].description:
        return -5
    return OK


CODES = {-1: 'a peptide was kept although none of its entries satisfies the rule (or miscleavages out of range)',
         -2: 'a peptide was dropped although one of its entries satisfies the rule',
         -3: 'sequence changed', -4: 'kept header entries differ from those satisfying the rule',
         -5: 'filtering twice differs from filtering once'}
_B = ('expression values and cut-off unbounded integers, coding membership / denylist / keep-canonical / '
      'keep-all-coding / keep-all-noncoding symbolic')


@cond('C19', bounds='single header entry {!r}; '.format(KINDS[0][0]) + _B, encodes=ENC, codes=CODES,
      shim=True, timeout=300)
def c19_entry_snv(e1: int, e2: int, cutoff: int, use_expr: bool, c1: bool, c2: bool, denied: bool,
        keep_canon: bool, keep_cod: bool, keep_non: bool) -> int:
    """
    post: _ >= 0
    """
    return _run([0], 0, e1, e2, cutoff, use_expr, c1, c2, denied, keep_canon, keep_cod, keep_non,
                False, 0, False, 0)


@cond('C19', bounds='single header entry {!r}; '.format(KINDS[1][0]) + _B, encodes=ENC, codes=CODES,
      shim=True, timeout=300)
def c19_entry_splice(e1: int, e2: int, cutoff: int, use_expr: bool, c1: bool, c2: bool, denied: bool,
        keep_canon: bool, keep_cod: bool, keep_non: bool) -> int:
    """
    post: _ >= 0
    """
    return _run([1], 0, e1, e2, cutoff, use_expr, c1, c2, denied, keep_canon, keep_cod, keep_non,
                False, 0, False, 0)


@cond('C19', bounds='single header entry {!r}; '.format(KINDS[2][0]) + _B, encodes=ENC, codes=CODES,
      shim=True, timeout=300)
def c19_entry_fusion(e1: int, e2: int, cutoff: int, use_expr: bool, c1: bool, c2: bool, denied: bool,
        keep_canon: bool, keep_cod: bool, keep_non: bool) -> int:
    """
    post: _ >= 0
    """
    return _run([2], 0, e1, e2, cutoff, use_expr, c1, c2, denied, keep_canon, keep_cod, keep_non,
                False, 0, False, 0)


@cond('C19', bounds='single header entry {!r}; '.format(KINDS[3][0]) + _B, encodes=ENC, codes=CODES,
      shim=True, timeout=300)
def c19_entry_circ(e1: int, e2: int, cutoff: int, use_expr: bool, c1: bool, c2: bool, denied: bool,
        keep_canon: bool, keep_cod: bool, keep_non: bool) -> int:
    """
    post: _ >= 0
    """
    return _run([3], 0, e1, e2, cutoff, use_expr, c1, c2, denied, keep_canon, keep_cod, keep_non,
                False, 0, False, 0)


@cond('C19', bounds='single header entry {!r}; '.format(KINDS[4][0]) + _B, encodes=ENC, codes=CODES,
      shim=True, timeout=300)
def c19_entry_novel_orf(e1: int, e2: int, cutoff: int, use_expr: bool, c1: bool, c2: bool, denied: bool,
        keep_canon: bool, keep_cod: bool, keep_non: bool) -> int:
    """
    post: _ >= 0
    """
    return _run([4], 0, e1, e2, cutoff, use_expr, c1, c2, denied, keep_canon, keep_cod, keep_non,
                False, 0, False, 0)


@cond('C19', bounds='single header entry {!r}; '.format(KINDS[5][0]) + _B, encodes=ENC, codes=CODES,
      shim=True, timeout=300)
def c19_entry_sect(e1: int, e2: int, cutoff: int, use_expr: bool, c1: bool, c2: bool, denied: bool,
        keep_canon: bool, keep_cod: bool, keep_non: bool) -> int:
    """
    post: _ >= 0
    """
    return _run([5], 0, e1, e2, cutoff, use_expr, c1, c2, denied, keep_canon, keep_cod, keep_non,
                False, 0, False, 0)


@cond('C19', bounds='single header entry {!r}; '.format(KINDS[6][0]) + _B, encodes=ENC, codes=CODES,
      shim=True, timeout=300)
def c19_entry_w2f(e1: int, e2: int, cutoff: int, use_expr: bool, c1: bool, c2: bool, denied: bool,
        keep_canon: bool, keep_cod: bool, keep_non: bool) -> int:
    """
    post: _ >= 0
    """
    return _run([6], 0, e1, e2, cutoff, use_expr, c1, c2, denied, keep_canon, keep_cod, keep_non,
                False, 0, False, 0)


@cond('C19', bounds='single header entry {!r}; '.format(KINDS[7][0]) + _B, encodes=ENC, codes=CODES,
      shim=True, timeout=300)
def c19_entry_novel_orf_w2f(e1: int, e2: int, cutoff: int, use_expr: bool, c1: bool, c2: bool, denied: bool,
        keep_canon: bool, keep_cod: bool, keep_non: bool) -> int:
    """
    post: _ >= 0
    """
    return _run([7], 0, e1, e2, cutoff, use_expr, c1, c2, denied, keep_canon, keep_cod, keep_non,
                False, 0, False, 0)


@cond('C19', bounds='single header entry {!r}; '.format(KINDS[8][0]) + _B, encodes=ENC, codes=CODES,
      shim=True, timeout=300)
def c19_entry_res_indel(e1: int, e2: int, cutoff: int, use_expr: bool, c1: bool, c2: bool, denied: bool,
        keep_canon: bool, keep_cod: bool, keep_non: bool) -> int:
    """
    post: _ >= 0
    """
    return _run([8], 0, e1, e2, cutoff, use_expr, c1, c2, denied, keep_canon, keep_cod, keep_non,
                False, 0, False, 0)


@cond('C19', bounds='miscleavage range: peptide with 0, 1 or 2 missed cleavages, each bound None or an unbounded '
      'integer; one SNV entry, expression rule symbolic', encodes=ENC, codes=CODES, shim=True, timeout=300)
def c19_miscleavage_range(pep_i: int, lo_kind: bool, lo: int, hi_kind: bool, hi: int, e1: int,
                          cutoff: int, use_expr: bool) -> int:
    """
    pre: 0 <= pep_i <= 2
    post: _ >= 0
    """
    return _run([0], pep_i, e1, 0, cutoff, use_expr, True, False, False, False, False, False,
                lo_kind, lo, hi_kind, hi)


@cond('C19', bounds='miscleavage range on peptides holding trypsin exception motifs (CKD, CKD + one real missed site, '
      'RRH + DKD): the count is taken under the trypsin exceptions; each bound None or an unbounded integer',
      encodes=ENC, codes=CODES, shim=True, timeout=300)
def c19_miscleavage_exception(pep_k: int, lo_kind: bool, lo: int, hi_kind: bool, hi: int, e1: int,
                              cutoff: int, use_expr: bool) -> int:
    """
    pre: 0 <= pep_k <= 2
    post: _ >= 0
    """
    for v in range(3):
        if pep_k == v:
            return _run([0], 3 + v, e1, 0, cutoff, use_expr, True, False, False, False, False, False,
                        lo_kind, lo, hi_kind, hi)
    return SKIP


@cond('C19', bounds='two header entries (SNV on ENST0001 + fusion ENST0001/ENST0002, and circRNA + novel ORF): '
      'peptide kept iff some entry kept, header = kept entries in order; ' + _B, encodes=ENC, codes=CODES,
      shim=False, timeout=900)
def c19_two_entries(pair: int, e1: int, e2: int, cutoff: int, use_expr: bool, c1: bool, c2: bool,
                    denied: bool, keep_canon: bool, keep_cod: bool, keep_non: bool) -> int:
    """
    pre: 0 <= pair <= 1
    post: _ >= 0
    """
    kinds = [[0, 2], [3, 4]][pair]
    return _run(kinds, 0, e1, e2, cutoff, use_expr, c1, c2, denied, keep_canon, keep_cod, keep_non,
                False, 0, False, 0)
