"""C18: database bookkeeping kernels - source-set order, split decision, merge union,
encode/decoy header inverse, label syntax round trip."""
import sys
from typing import List

import moPepGen.cli.encode_fasta  # noqa: F401
from Bio.Seq import Seq
from moPepGen import SPLIT_DATABASE_KEY_SEPARATER, VARIANT_PEPTIDE_SOURCE_DELIMITER
from moPepGen.aa import AminoAcidSeqRecord
from moPepGen.aa import VariantPeptideIdentifier as pi
from moPepGen.aa.PeptidePoolSplitter import PeptidePoolSplitter
from moPepGen.aa.VariantPeptideLabel import LabelSourceMapping, VariantPeptideInfo, VariantSourceSet
from moPepGen.aa.VariantPeptidePool import VariantPeptidePool
from mpgverif.hlib import OK, SKIP, concretize, cond, patched, under_shim

USE_SHIM = True
USE_TOKENS = False

enc = sys.modules['moPepGen.cli.encode_fasta']
SRC = ['gSNP', 'sSNV', 'Fusion']


def _set(mask):
    return VariantSourceSet([SRC[i] for i in range(3) if (mask >> i) & 1])


def _key(mask, lv):
    ls = sorted(lv[i] for i in range(3) if (mask >> i) & 1)
    return (len(ls), ls)


def _order(ma, mb, mc, l0, l1, l2):
    lv = [l0, l1, l2]
    if l0 == l1 or l0 == l2 or l1 == l2:
        return SKIP
    ma, mb, mc = concretize(ma, 1, 7), concretize(mb, 1, 7), concretize(mc, 1, 7)
    VariantSourceSet.set_levels({SRC[i]: lv[i] for i in range(3)})
    try:
        a, b, c = _set(ma), _set(mb), _set(mc)
        if a < a or a > a:
            return -1              # not irreflexive
        if (a < b) and (b < a):
            return -2              # not asymmetric
        if (a < b) != (b > a):
            return -3              # < inconsistent with >
        if ma != mb and not (a < b or b < a):
            return -4              # distinct source sets incomparable
        if (a < b) and (b < c) and not a < c:
            return -5              # not transitive
        if (a < b) != (_key(ma, lv) < _key(mb, lv)):
            return -6              # not "fewest sources first, then lexicographic by priority"
        if (a <= b) != (not a > b) or (a >= b) != (a == b or a > b):
            return -7
    finally:
        VariantSourceSet.reset_levels()
    return OK


CODES_O = {-1: 'source-set order is not irreflexive', -2: 'not asymmetric', -3: '< inconsistent with >',
           -4: 'two distinct source sets are incomparable', -5: 'not transitive',
           -6: 'order is not: fewer sources first, then lexicographic by source priority',
           -7: '<= / >= inconsistent'}


@cond('C18', bounds='all PAIRS of non-empty subsets of a 3-source universe, UNBOUNDED distinct symbolic priority '
      'levels: the implemented order equals "fewer sources first, then lexicographic by priority" (a strict total '
      'order, hence transitive)', encodes=['moPepGen.aa.VariantPeptideLabel.VariantSourceSet.__gt__/__lt__/__ge__/__le__/to_int'],
      codes=CODES_O, timeout=300)
def c18_source_order_pairs(ma: int, mb: int, l0: int, l1: int, l2: int) -> int:
    """
    pre: 1 <= ma <= 7 and 1 <= mb <= 7
    post: _ >= 0
    """
    return _order(ma, mb, mb, l0, l1, l2)


@cond('C18', bounds='all triples of non-empty subsets of a 3-source universe, UNBOUNDED distinct symbolic priority '
      'levels', encodes=['moPepGen.aa.VariantPeptideLabel.VariantSourceSet.__gt__/__lt__/__ge__/__le__/to_int'],
      codes=CODES_O, timeout=1500, tiers=('thorough',))
def c18_source_order(ma: int, mb: int, mc: int, l0: int, l1: int, l2: int) -> int:
    """
    pre: 1 <= ma <= 7 and 1 <= mb <= 7 and 1 <= mc <= 7
    post: _ >= 0
    """
    return _order(ma, mb, mc, l0, l1, l2)


# ------------------------------------------------------------------ split
LABELS = ['ENST1|SNV-1-A-T|1', 'ENST2|INDEL-5-AA-A|SNV-9-C-G|1']
TX2GENE = {'ENST1': 'G1', 'ENST2': 'G2'}


PERMS = [(0, 1, 2), (0, 2, 1), (1, 0, 2), (1, 2, 0), (2, 0, 1), (2, 1, 0)]


def _split_perm(s0, s1, s2, perm, max_groups, add_kind, swap):
    l0, l1, l2 = PERMS[concretize(perm, 0, 5)]
    return _split(s0, s1, s2, l0, l1, l2, max_groups, add_kind, swap)


def _split(s0, s1, s2, l0, l1, l2, max_groups, add_kind, swap):
    """variant -> source assignment symbolic (s0 for SNV-1-A-T on G1; s1, s2 for the two variants
    on G2); source priorities symbolic; additional split option symbolic"""
    lv = [l0, l1, l2]
    if l0 == l1 or l0 == l2 or l1 == l2:
        return SKIP
    s0, s1, s2 = concretize(s0, 0, 2), concretize(s1, 0, 2), concretize(s2, 0, 2)
    add_kind = concretize(add_kind, 0, 2)
    label_map = LabelSourceMapping({'G1': {'SNV-1-A-T': SRC[s0]},
                                    'G2': {'INDEL-5-AA-A': SRC[s1], 'SNV-9-C-G': SRC[s2]}})
    labels = [LABELS[1], LABELS[0]] if swap else list(LABELS)
    rec = AminoAcidSeqRecord(Seq('PEPTIDEK'), _id='x', name='x',
                             description=VARIANT_PEPTIDE_SOURCE_DELIMITER.join(labels))
    pool = VariantPeptidePool({rec})
    order = {SRC[i]: lv[i] for i in range(3)}
    splitter = PeptidePoolSplitter(peptides=pool, order=order, label_map=label_map)
    additional = [[], [{'gSNP', 'sSNV'}], [{'Fusion'}, {'sSNV'}]][add_kind]
    try:
        splitter.split(max_groups, additional, TX2GENE, set())
    finally:
        VariantSourceSet.reset_levels()
    # --- oracle
    sets = {LABELS[0]: {s0}, LABELS[1]: {s1, s2}}

    def key(lab):
        ls = sorted(lv[i] for i in sets[lab])
        return (len(ls), ls)

    best = LABELS[0] if key(LABELS[0]) < key(LABELS[1]) else LABELS[1]
    if key(LABELS[0]) == key(LABELS[1]):
        best = labels[0]           # equal source sets: either entry gives the same database
    src = sets[best]
    names_by_level = [SRC[i] for i in sorted(src, key=lambda i: lv[i])]
    if len(src) <= max_groups:
        want = SPLIT_DATABASE_KEY_SEPARATER.join(names_by_level)
    else:
        want = 'Remaining'
        for a in additional:
            if a.issubset({SRC[i] for i in src}):
                an = [n for n in sorted(a, key=lambda n: lv[SRC.index(n)])]
                want = SPLIT_DATABASE_KEY_SEPARATER.join(an) + SPLIT_DATABASE_KEY_SEPARATER + 'additional'
                break
    dbs = {k: v for k, v in splitter.databases.items() if v.peptides}
    if len(dbs) != 1 or sum(len(v.peptides) for v in dbs.values()) != 1:
        return -1                  # not assigned to exactly one database
    got = list(dbs)[0]
    if got != want:
        return -2                  # wrong database
    out = list(dbs[got].peptides)[0]
    if str(out.seq) != 'PEPTIDEK':
        return -3
    entries = out.description.split(VARIANT_PEPTIDE_SOURCE_DELIMITER)
    if sorted(entries) != sorted(LABELS):
        return -4                  # header entries not all kept
    return OK


CODES_S = {-1: 'peptide not assigned to exactly one output database', -2: 'peptide assigned to the wrong database',
           -3: 'sequence changed', -4: 'header entries lost or altered'}


@cond('C18', bounds='one peptide with two header entries (1 and 2 variants); every variant->source assignment over 3 '
      'sources, every priority order of the 3 sources, symbolic unbounded max_groups, 3 additional-split settings, '
      'both entry orders', encodes=['moPepGen.aa.PeptidePoolSplitter.PeptidePoolSplitter.split/create_wildcard_map',
      'moPepGen.aa.VariantPeptideLabel.VariantPeptideInfo.from_variant_peptide'], codes=CODES_S, timeout=1500,
      tiers=('thorough',))
def c18_split(s0: int, s1: int, s2: int, perm: int, max_groups: int, add_kind: int, swap: bool) -> int:
    """
    pre: 0 <= s0 <= 2 and 0 <= s1 <= 2 and 0 <= s2 <= 2
    pre: 0 <= perm <= 5
    pre: 0 <= add_kind <= 2
    post: _ >= 0
    """
    return _split_perm(s0, s1, s2, perm, max_groups, add_kind, swap)


# ------------------------------------------------------------------ merge
SEQS = ['AAAK', 'CCCK']


def _merge(q0, q1, q2):
    """three records, each with sequence SEQS[q] and its own label, merged into one pool"""
    qs = [concretize(q, 0, 1) for q in (q0, q1, q2)]
    pool = VariantPeptidePool()
    for i, q in enumerate(qs):
        rec = AminoAcidSeqRecord(Seq(SEQS[q]), _id=f'L{i}', name=f'L{i}', description=f'L{i}')
        pool.add_peptide(rec, None, skip_checking=True)
    got = {str(p.seq): p.description.split(VARIANT_PEPTIDE_SOURCE_DELIMITER) for p in pool.peptides}
    if len(got) != len(pool.peptides):
        return -1                  # a sequence occurs twice
    want = {}
    for i, q in enumerate(qs):
        want.setdefault(SEQS[q], []).append(f'L{i}')
    if set(got) != set(want):
        return -2
    for k in want:
        if got[k] != want[k]:
            return -3              # header entries are not the union (in order of arrival)
    return OK


@cond('C18', bounds='merge of 3 records over 2 sequences in every arrangement',
      encodes=['moPepGen.aa.VariantPeptidePool.VariantPeptidePool.add_peptide (skip_checking)'],
      codes={-1: 'a sequence occurs twice after merging', -2: 'set of sequences is not the union',
             -3: 'header entries of a sequence are not the union of the merged entries'}, timeout=200)
def c18_merge(q0: int, q1: int, q2: int) -> int:
    """
    pre: 0 <= q0 <= 1 and 0 <= q1 <= 1 and 0 <= q2 <= 1
    post: _ >= 0
    """
    return _merge(q0, q1, q2)


DD_TX = ['ENST0001', 'ENST0002']
DD_VAR = ['SNV-1-A-T', 'SNV-7-G-C', 'SNV-1-A-T|ORF2']


def _unversioned(entry):
    return entry[:entry.rindex('|')]


def _dedup_headers(t0, v0, i0, t1, v1, i1, t2, v2, i2):
    """one peptide with three header entries TX|VARIANT[|ORF]|INDEX; the real remove_redundant_headers
    may only drop an entry whose text up to the trailing index equals that of an entry it keeps"""
    sel = [(concretize(t, 0, 1), concretize(v, 0, 2), concretize(i, 1, 2))
           for t, v, i in ((t0, v0, i0), (t1, v1, i1), (t2, v2, i2))]
    entries = [f'{DD_TX[t]}|{DD_VAR[v]}|{i}' for t, v, i in sel]
    header = VARIANT_PEPTIDE_SOURCE_DELIMITER.join(entries)
    pool = VariantPeptidePool()
    rec = AminoAcidSeqRecord(Seq('AAAK'), _id=header, name=header, description=header)
    pool.add_peptide(rec, None, skip_checking=True)
    pool.remove_redundant_headers()
    if len(pool.peptides) != 1:
        return -1
    pep = list(pool.peptides)[0]
    if str(pep.seq) != 'AAAK':
        return -1
    got = pep.description.split(VARIANT_PEPTIDE_SOURCE_DELIMITER)
    k = 0
    for e in entries:              # kept entries are original entries in their original order
        if k < len(got) and got[k] == e:
            k += 1
    if k != len(got):
        return -2
    kept = [_unversioned(e) for e in got]
    for e in entries:
        if _unversioned(e) not in kept:
            return -3              # an entry naming another transcript / variant / ORF was dropped
    if len(set(kept)) != len(kept):
        return -4                  # entries differing only in the trailing index both kept
    return OK


@cond('C18', bounds='mergeFasta --dedup-header kernel: one peptide with 3 header entries, each transcript in 2 x '
      'variant label in 3 (one with an ORF id) x trailing index in 2, every combination',
      encodes=['moPepGen.aa.VariantPeptidePool.VariantPeptidePool.remove_redundant_headers'],
      codes={-1: 'peptide lost or altered', -2: 'a kept entry is not an original entry (or order changed)',
             -3: 'a header entry was dropped although no kept entry equals it up to the trailing index '
                 '(union of header entries lost)',
             -4: 'two entries differing only in the trailing index were both kept'}, timeout=400)
def c18_dedup_header(t0: int, v0: int, i0: int, t1: int, v1: int, i1: int, t2: int, v2: int, i2: int) -> int:
    """
    pre: 0 <= t0 <= 1 and 0 <= t1 <= 1 and 0 <= t2 <= 1
    pre: 0 <= v0 <= 2 and 0 <= v1 <= 2 and 0 <= v2 <= 2
    pre: 1 <= i0 <= 2 and 1 <= i1 <= 2 and 1 <= i2 <= 2
    post: _ >= 0
    """
    return _dedup_headers(t0, v0, i0, t1, v1, i1, t2, v2, i2)


# ------------------------------------------------------------------ encode
def mkstr(points):
    if under_shim():
        from mpgverif.bioshim import _to_str
        return _to_str(points)
    return ''.join(chr(c) for c in points)


def _encode_inverse(h, d, prefix):
    header, decoy = mkstr(h), mkstr(d)
    pos = 'prefix' if prefix else 'suffix'
    dh = enc.get_decoy_header(header, decoy, pos)
    if not enc.is_decoy_sequence(dh, decoy, pos):
        return -1
    if enc.get_real_header(dh, decoy, pos) != header:
        return -2                  # dictionary cannot restore the header of a decoy entry
    return OK


@cond('C18', bounds='decoy header attach / detect / strip for every header of length <= 4 and every non-empty decoy '
      'string of length <= 2 (any printable ASCII), prefix and suffix',
      encodes=['moPepGen.cli.encode_fasta.get_decoy_header / is_decoy_sequence / get_real_header'],
      codes={-1: 'decoy entry not recognised', -2: 'real header not restored exactly'}, timeout=300)
def c18_decoy_header_inverse(h: List[int], d: List[int], prefix: bool) -> int:
    """
    pre: len(h) <= 4 and 1 <= len(d) <= 2
    pre: all(33 <= c <= 126 for c in h) and all(33 <= c <= 126 for c in d)
    post: _ >= 0
    """
    return _encode_inverse(h, d, prefix)


def _encode_loop(k0, k1, k2, dec0, dec1, dec2, prefix):
    """real encode_fasta loop over 3 records (headers from 2 base headers, each possibly a decoy):
    dictionary + encoded header restore every original header; equal headers share an id"""
    base = ['HDR_A|1', 'HDR_B|2 HDR_C|1']
    ks = [concretize(k, 0, 1) for k in (k0, k1, k2)]
    pos = 'prefix' if prefix else 'suffix'
    ds = 'DECOY_'
    hdrs = []
    for k, dec in zip(ks, (dec0, dec1, dec2)):
        h = base[k]
        hdrs.append((ds + h if prefix else h + ds) if dec else h)

    class _Rec:
        def __init__(self, d):
            self.description = d

    recs = [_Rec(h) for h in hdrs]
    written, dict_lines = [], []
    counter = {'n': 0}

    class _W:
        def __init__(self, handle, record2title=None):
            self.t = record2title

        def write_record(self, rec):
            written.append(self.t(rec) if self.t else rec.description)

    class _H:
        def __init__(self, sink):
            self.sink = sink

        def __enter__(self):
            return self

        def __exit__(self, *a):
            return False

        def write(self, s):
            self.sink.append(s)

    def fake_open(path, mode='r'):
        return _H(dict_lines if str(path).endswith('.dict') else [])

    class _UUID:
        @staticmethod
        def uuid4():
            counter['n'] += 1
            return f'id{counter["n"]}'

    import argparse
    from pathlib import Path
    args = argparse.Namespace(input_path=Path('in.fasta'), output_path=Path('out.fasta'), decoy_string=ds,
                              decoy_string_position=pos, command='encodeFasta')
    with patched((enc, 'open', fake_open), (enc.SeqIO, 'parse', lambda h, fmt=None: iter(recs)),
                 (enc.FastaIO, 'FastaWriter', _W), (enc, 'uuid', _UUID),
                 (enc.common, 'validate_file_format', lambda *a, **k: None),
                 (enc.common, 'print_start_message', lambda a: None)):
        enc.encode_fasta(args)
    mapping = {}
    for ln in dict_lines:
        idx, h = ln.rstrip('\n').split('\t')
        if idx in mapping:
            return -1
        mapping[idx] = h
    if len(written) != 3:
        return -2
    for w, orig in zip(written, hdrs):
        isd = w.startswith(ds) if prefix else w.endswith(ds)
        core = (w[len(ds):] if prefix else w[:-len(ds)]) if isd else w
        if core not in mapping:
            return -3
        restored = mapping[core]
        if isd:
            restored = ds + restored if prefix else restored + ds
        if restored != orig:
            return -4              # dictionary does not restore the header exactly
    return OK


@cond('C18', bounds='encodeFasta loop over 3 records drawn from 2 headers, each target or decoy, prefix / suffix; '
      'file I/O and uuid stubbed', encodes=['moPepGen.cli.encode_fasta.encode_fasta'],
      stubs=['open, SeqIO.parse, FastaIO.FastaWriter, uuid.uuid4 -> counter, common.validate_file_format'],
      codes={-1: 'identifier reused for two headers', -2: 'record count changed',
             -3: 'encoded identifier missing from the dictionary',
             -4: 'dictionary does not restore the original header (decoy string preserved)'}, timeout=300)
def c18_encode_loop(k0: int, k1: int, k2: int, dec0: bool, dec1: bool, dec2: bool, prefix: bool) -> int:
    """
    pre: 0 <= k0 <= 1 and 0 <= k1 <= 1 and 0 <= k2 <= 1
    post: _ >= 0
    """
    return _encode_loop(k0, k1, k2, dec0, dec1, dec2, prefix)


# ------------------------------------------------------------------ label syntax
LABEL_CASES = [
    'ENST0001|SNV-50-A-T|1', 'ENST0001|SNV-50-A-T|INDEL-55-CC-C|2', 'ENST0001|ENSG0001|ORF2|1',
    'ENST0001|ENSG0001|W2F-5|ORF2|1', 'ENST0001|SNV-50-A-T|ORF1|3', 'ENST0001|SECT-101|W2F-5|1',
    'FUSION-ENST0001:10-ENST0002:20|1', 'FUSION-ENST0001:10-ENST0002:20|1-SNV-5-A-T|2-INDEL-7-AA-A|W2F-3|2',
    'FUSION-ENST0001:10-ENST0002:20|ORF1|1-SNV-5-A-T|1', 'CIRC-ENST0001-10:20|1',
    'CIRC-ENST0001-10:20|ORF3|SNV-5-A-T|W2F-9|4', 'CI-ENST0001-10:20|SNV-5-A-T|1',
    'ENST0001|RES-101-A-G|SE_10-20-30-40|MXE_1-2-3-4|12',
]


@cond('C18', bounds='13 header entries covering the four identifier kinds with/without ORF id, alt-translation ids '
      'and fusion-side variants; pairs joined by the entry delimiter',
      encodes=['moPepGen.aa.VariantPeptideIdentifier.parse_variant_peptide_id', '*Identifier.__str__'],
      codes={-1: 'parsing a header entry and printing it back changes the text',
             -2: 'number of parsed entries differs from the number of header entries'}, timeout=300)
def c18_label_roundtrip(i: int, j: int) -> int:
    """
    pre: 0 <= i <= 12 and 0 <= j <= 12
    post: _ >= 0
    """
    i, j = concretize(i, 0, 12), concretize(j, 0, 12)
    text = LABEL_CASES[i] + VARIANT_PEPTIDE_SOURCE_DELIMITER + LABEL_CASES[j]
    ids = pi.parse_variant_peptide_id(text, set())
    if len(ids) != 2:
        return -2
    if str(ids[0]) != LABEL_CASES[i] or str(ids[1]) != LABEL_CASES[j]:
        return -1
    return OK


@cond('C18', bounds='as c18_split with the header entries in one fixed order (quick tier)',
      encodes=['moPepGen.aa.PeptidePoolSplitter.PeptidePoolSplitter.split/create_wildcard_map',
      'moPepGen.aa.VariantPeptideLabel.VariantPeptideInfo.from_variant_peptide'], codes=CODES_S, timeout=600)
def c18_split_q(s0: int, s1: int, s2: int, perm: int, max_groups: int, add_kind: int) -> int:
    """
    pre: 0 <= s0 <= 2 and 0 <= s1 <= 2 and 0 <= s2 <= 2
    pre: 0 <= perm <= 5
    pre: 0 <= add_kind <= 2
    post: _ >= 0
    """
    return _split_perm(s0, s1, s2, perm, max_groups, add_kind, False)


FUSION_LABEL = 'FUSION-ENST1:10-ENST2:20|1-SNV-5-A-T|2-INDEL-7-AA-A|1'


def _fusion_sources(sf, sa, sb, same_gene):
    sf, sa, sb = concretize(sf, 0, 2), concretize(sa, 0, 2), concretize(sb, 0, 2)
    VariantSourceSet.set_levels({SRC[i]: i for i in range(3)})
    try:
        g2 = 'G1' if same_gene else 'G2'
        data = {'G1': {'FUSION-ENST1:10-ENST2:20': SRC[sf], 'SNV-5-A-T': SRC[sa]}}
        data.setdefault(g2, {})['INDEL-7-AA-A'] = SRC[sb]
        rec = AminoAcidSeqRecord(Seq('PEPTIDEK'), _id='x', name='x', description=FUSION_LABEL)
        infos = VariantPeptideInfo.from_variant_peptide(
            peptide=rec, tx2gene={'ENST1': 'G1', 'ENST2': g2}, coding_tx=set(),
            label_map=LabelSourceMapping(data))
        if len(infos) != 1:
            return -1
        if set(infos[0].sources) != {SRC[sf], SRC[sa], SRC[sb]}:
            return -2              # a source of the entry (donor side, fusion, acceptor side) is lost
        if str(infos[0]) != FUSION_LABEL:
            return -3
    finally:
        VariantSourceSet.reset_levels()
    return OK


@cond('C18', bounds='one fusion header entry with a donor-side and an acceptor-side variant; donor and acceptor in the '
      'same gene or in different genes; every source assignment over 3 sources',
      encodes=['moPepGen.aa.VariantPeptideLabel.VariantPeptideInfo.from_variant_peptide (fusion branch)'],
      codes={-1: 'number of entries changed', -2: 'source set of a fusion entry is not the union of the sources of its '
             'donor-side variants, the fusion and its acceptor-side variants', -3: 'header entry text changed'},
      timeout=300)
def c18_fusion_sources(sf: int, sa: int, sb: int, same_gene: bool) -> int:
    """
    pre: 0 <= sf <= 2 and 0 <= sa <= 2 and 0 <= sb <= 2
    post: _ >= 0
    """
    return _fusion_sources(sf, sa, sb, same_gene)


# ------------------------------------------------------------------ summarize == split
def _summarize(s0, s1, s2, perm, k1):
    """three peptides: P0 with both header entries, P1 / P2 with one entry each (which one: k1, k2); variant -> source
    assignment symbolic; the per-source-set totals of summarizeFasta against the database sizes of splitFasta"""
    from moPepGen.aa.PeptidePoolSummarizer import PeptidePoolSummarizer
    lv = PERMS[concretize(perm, 0, 5)]
    s0, s1, s2 = concretize(s0, 0, 2), concretize(s1, 0, 2), concretize(s2, 0, 2)
    k1 = concretize(k1, 0, 1)
    k2 = 1 - k1
    label_map = LabelSourceMapping({'G1': {'SNV-1-A-T': SRC[s0]},
                                    'G2': {'INDEL-5-AA-A': SRC[s1], 'SNV-9-C-G': SRC[s2]}})
    recs = [AminoAcidSeqRecord(Seq('PEPTIDEK'), _id='a', name='a',
                               description=VARIANT_PEPTIDE_SOURCE_DELIMITER.join(LABELS)),
            AminoAcidSeqRecord(Seq('AAAKCCCR'), _id='b', name='b', description=LABELS[k1]),
            AminoAcidSeqRecord(Seq('GGGK'), _id='c', name='c', description=LABELS[k2])]
    order = {SRC[i]: lv[i] for i in range(3)}
    try:
        summ = PeptidePoolSummarizer(peptides=VariantPeptidePool(set(recs)), label_map=label_map, order=dict(order))
        summ.count_peptide_source(TX2GENE, set(), 'trypsin')
        table = summ.summary_table
        VariantSourceSet.reset_levels()
        splitter = PeptidePoolSplitter(peptides=VariantPeptidePool(set(recs)), order=dict(order), label_map=label_map)
        splitter.split(3, [], TX2GENE, set())
    finally:
        VariantSourceSet.reset_levels()
    total = 0
    for key in table.data:
        total += table.get_n_total(key)
        per_misc = 0
        for m in range(table.max_misc + 1):
            per_misc += table.get_n_x_misc(key, m)
        if per_misc != table.get_n_total(key):
            return -2              # per-miscleavage counts of a row do not add up to its total
    if total != 3:
        return -1                  # totals do not add up to the number of peptides
    sizes = {k: len(v.peptides) for k, v in splitter.databases.items() if v.peptides}
    rows = {}
    for key in table.data:
        name = SPLIT_DATABASE_KEY_SEPARATER.join(sorted(key, key=lambda n: order[n]))
        rows[name] = table.get_n_total(key)
    if rows != sizes:
        return -3                  # a summary row disagrees with the size of the database splitFasta writes
    return OK


@cond('C18', bounds='3 peptides (one with two header entries, two with one entry each - which one symbolic), 3 variants '
      'with symbolic source assignment over 3 sources, every priority order; max-groups 3, no additional split',
      encodes=['moPepGen.aa.PeptidePoolSummarizer.PeptidePoolSummarizer.count_peptide_source / '
               'NoncanonicalPeptideSummaryTable.add_entry', 'moPepGen.aa.PeptidePoolSplitter.PeptidePoolSplitter.split',
               'moPepGen.aa.VariantPeptideLabel.VariantPeptideInfo.from_variant_peptide'],
      codes={-1: 'per-source totals of summarizeFasta do not add up to the number of peptides',
             -2: 'per-miscleavage counts of a row do not add up to its total',
             -3: 'a summary row disagrees with the size of the database splitFasta produces for that source set'},
      timeout=600)
def c18_summarize_vs_split(s0: int, s1: int, s2: int, perm: int, k1: int) -> int:
    """
    pre: 0 <= s0 <= 2 and 0 <= s1 <= 2 and 0 <= s2 <= 2
    pre: 0 <= perm <= 5
    pre: 0 <= k1 <= 1
    post: _ >= 0
    """
    return _summarize(s0, s1, s2, perm, k1)


# ------------------------------------------------------------------ split: multi-source top-priority set
LABEL3 = 'ENST2|INDEL-5-AA-A|SNV-9-C-G|SNV-12-G-T|1'
ADD_OPTIONS = [[], [{'gSNP', 'sSNV'}], [{'gSNP', 'sSNV'}, {'gSNP', 'Fusion'}], [{'Fusion'}, {'sSNV'}, {'gSNP'}],
               [{'sSNV', 'Fusion'}, {'gSNP'}]]


def _split_multi(s0, s1, s2, perm, max_groups, add_kind):
    """ONE header entry with three variants whose sources are symbolic: the top-priority source set has 1..3 sources;
    several --additional-split sets may match it at once (the first in the given order wins)"""
    lv = PERMS[concretize(perm, 0, 5)]
    s0, s1, s2 = concretize(s0, 0, 2), concretize(s1, 0, 2), concretize(s2, 0, 2)
    additional = [set(a) for a in ADD_OPTIONS[concretize(add_kind, 0, len(ADD_OPTIONS) - 1)]]
    label_map = LabelSourceMapping({'G2': {'INDEL-5-AA-A': SRC[s0], 'SNV-9-C-G': SRC[s1], 'SNV-12-G-T': SRC[s2]}})
    rec = AminoAcidSeqRecord(Seq('PEPTIDEK'), _id='x', name='x', description=LABEL3)
    order = {SRC[i]: lv[i] for i in range(3)}
    splitter = PeptidePoolSplitter(peptides=VariantPeptidePool({rec}), order=order, label_map=label_map)
    try:
        splitter.split(max_groups, additional, TX2GENE, set())
    finally:
        VariantSourceSet.reset_levels()
    src = {s0, s1, s2}
    names = {SRC[i] for i in src}
    if len(src) <= max_groups:
        want = SPLIT_DATABASE_KEY_SEPARATER.join(SRC[i] for i in sorted(src, key=lambda i: lv[i]))
    else:
        want = 'Remaining'
        for a in additional:
            if a.issubset(names):
                want = SPLIT_DATABASE_KEY_SEPARATER.join(sorted(a, key=lambda n: lv[SRC.index(n)])) + \
                    SPLIT_DATABASE_KEY_SEPARATER + 'additional'
                break
    dbs = {k: v for k, v in splitter.databases.items() if v.peptides}
    if len(dbs) != 1 or sum(len(v.peptides) for v in dbs.values()) != 1:
        return -1                  # not assigned to exactly one database
    if list(dbs)[0] != want:
        return -2
    out = list(dbs[want].peptides)[0]
    if str(out.seq) != 'PEPTIDEK' or out.description != LABEL3:
        return -3
    return OK


@cond('C18', bounds='one peptide, one header entry with 3 variants, symbolic source assignment over 3 sources (top-priority set '
      'of 1..3 sources), every priority order, UNBOUNDED symbolic --max-source-groups, 5 --additional-split option lists '
      '(none / one / several sets that can match at once)', encodes=['moPepGen.aa.PeptidePoolSplitter.PeptidePoolSplitter.'
      'split / get_additional_database_key', 'moPepGen.aa.VariantPeptideLabel.VariantPeptideInfo.from_variant_peptide'],
      codes=CODES_S, timeout=600)
def c18_split_multi(s0: int, s1: int, s2: int, perm: int, max_groups: int, add_kind: int) -> int:
    """
    pre: 0 <= s0 <= 2 and 0 <= s1 <= 2 and 0 <= s2 <= 2
    pre: 0 <= perm <= 5
    pre: 0 <= add_kind <= 4
    post: _ >= 0
    """
    return _split_multi(s0, s1, s2, perm, max_groups, add_kind)


# ------------------------------------------------------------------ summarizeFasta TABLE (written rows) with --group-source
def _summary_table(s0, s1, s2, perm, grouped):
    """as c18_summarize_vs_split, but the WRITTEN summary table is parsed, the sources carry their parsers (two of them
    mutually exclusive fusion / splicing parsers) and --group-source may put those two sources into one group"""
    import io
    from moPepGen.aa.PeptidePoolSummarizer import PeptidePoolSummarizer
    lv = PERMS[concretize(perm, 0, 5)]
    s0, s1, s2 = concretize(s0, 0, 2), concretize(s1, 0, 2), concretize(s2, 0, 2)
    label_map = LabelSourceMapping({'G1': {'SNV-1-A-T': SRC[s0]},
                                    'G2': {'INDEL-5-AA-A': SRC[s1], 'SNV-9-C-G': SRC[s2]}})
    recs = [AminoAcidSeqRecord(Seq('PEPTIDEK'), _id='a', name='a',
                               description=VARIANT_PEPTIDE_SOURCE_DELIMITER.join(LABELS)),
            AminoAcidSeqRecord(Seq('AAAKCCCR'), _id='b', name='b', description=LABELS[0]),
            AminoAcidSeqRecord(Seq('GGGK'), _id='c', name='c', description=LABELS[1])]
    group_map = {'sSNV': 'RNA', 'Fusion': 'RNA'} if grouped else {}
    parsers = {'gSNP': 'parseVEP', 'sSNV': 'parseRMATS', 'Fusion': 'parseSTARFusion'}
    by_level = [SRC[i] for i in sorted(range(3), key=lambda i: lv[i])]
    try:
        summ = PeptidePoolSummarizer(peptides=VariantPeptidePool(set(recs)), label_map=label_map, group_map=dict(group_map),
                                     source_parser_map=dict(parsers))
        for src in by_level:
            summ.append_order(src)
        summ.append_order_internal_sources()
        summ.count_peptide_source(TX2GENE, set(), 'trypsin')
        out = io.StringIO()
        summ.write_summary_table(out)
        VariantSourceSet.reset_levels()
        splitter = PeptidePoolSplitter(peptides=VariantPeptidePool(set(recs)), label_map=label_map, group_map=dict(group_map))
        for src in by_level:
            splitter.append_order(src)
        splitter.append_order_internal_sources()
        splitter.split(3, [], TX2GENE, set())
    finally:
        VariantSourceSet.reset_levels()
    rows = {}
    lines = out.getvalue().rstrip('\n').split('\n')
    if not lines or not lines[0].startswith('sources\tn_total'):
        return -4
    for line in lines[1:]:
        f = line.split('\t')
        rows[f[0]] = int(f[1])
    if sum(rows.values()) != 3:
        return -1                  # totals of the written table do not add up to the number of peptides
    sizes = {k: len(v.peptides) for k, v in splitter.databases.items() if v.peptides}
    if {k: v for k, v in rows.items() if v} != sizes:
        return -3                  # a written row disagrees with / is missing for a database splitFasta produces
    return OK


@cond('C18', bounds='summarizeFasta table as WRITTEN: 3 peptides, 3 variants with symbolic source assignment over 3 sources whose '
      'parsers include two mutually exclusive ones (parseRMATS, parseSTARFusion), every priority order, with '
      '--group-source putting those two sources into one group; compared with the splitFasta databases under the same '
      'options', encodes=['moPepGen.aa.PeptidePoolSummarizer.PeptidePoolSummarizer.write_summary_table / '
      'contains_exclusive_sources / append_order / count_peptide_source', 'moPepGen.aa.PeptidePoolSplitter.'
      'PeptidePoolSplitter.split / append_order'],
      codes={-1: 'totals of the written summary table do not add up to the number of peptides',
             -3: 'a written row disagrees with, or is missing for, a database splitFasta produces',
             -4: 'table header malformed'}, timeout=600)
def c18_summary_table_grouped(s0: int, s1: int, s2: int, perm: int) -> int:
    """
    pre: 0 <= s0 <= 2 and 0 <= s1 <= 2 and 0 <= s2 <= 2
    pre: 0 <= perm <= 5
    post: _ >= 0
    """
    # ungrouped, a source set holding both exclusive parsers' sources cannot occur in real data and its row is dropped
    # on purpose; with the two sources in ONE group every source set is legitimate
    return _summary_table(s0, s1, s2, perm, True)
