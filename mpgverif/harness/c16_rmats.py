"""C16: parseRMATS.  Real SE/A5SS/A3SS/MXE/RI record conversion (junction novelty test,
alignment to each transcript, junction -> deletion/insertion/substitution record) on genes
built from symbolic exon coordinates.  Oracle: provenance membership - for an arbitrary
genomic position p, "p belongs to the transcript after applying the emitted record under
the documented <DEL>/<INS>/<SUB> semantics" <=> "p belongs to an exon of the alternative
form", plus placement of the anchor / donor segment.  Sequence content is stubbed (length
only): REF bases are outside this claim."""
from moPepGen.parser.RMATSParser.A3SSRecord import A3SSRecord
from moPepGen.parser.RMATSParser.A5SSRecord import A5SSRecord
from moPepGen.parser.RMATSParser.MXERecord import MXERecord
from moPepGen.parser.RMATSParser.RIRecord import RIRecord
from moPepGen.parser.RMATSParser.SERecord import SERecord
from moPepGen import dna
from mpgverif.harness.annobuild import anno_multi
from mpgverif.hlib import OK, SKIP, blank_seq, cond

USE_SHIM = True
USE_TOKENS = True

ENC = ['moPepGen.seqvar.SplicingJunction.SpliceJunction.is_novel/align_to_transcript',
       'moPepGen.seqvar.SplicingJunction.SpliceJunctionTranscriptAlignment.convert_to_variant_records '
       '(create_*_deletion / insertion / substitution, get_interjacent_exons, spanning lookups)',
       'moPepGen.gtf.TranscriptAnnotationModel.has_junction / get_exon_with_start / get_exon_with_end']
TAIL = dict(ijc_sample_2=0, sjc_sample_2=0, inc_form_len=1, skip_form_len=1, pvalue=0.5, fdr=0.5)


def _increasing(vals):
    for i in range(len(vals) - 1):
        if not vals[i] < vals[i + 1]:
            return False
    return True


def _gene2genomic(gs, ge, strand, a, b):
    """gene interval [a,b) -> genomic interval"""
    return (gs + a, gs + b) if strand == 1 else (ge - b, ge - a)


def _in(p, iv):
    return iv[0] <= p < iv[1]


def _in_any(p, ivs):
    for iv in ivs:
        if _in(p, iv):
            return True
    return False


def _check_record(r, gs, ge, strand, tx, alt, p):
    """r: emitted record for transcript exons `tx`; alt: exons of the alternative form."""
    start, end = r.location.start, r.location.end
    if r.type == 'Deletion':
        d = _gene2genomic(gs, ge, strand, start, end)
        if r.attrs['START'] != start or r.attrs['END'] != end:
            return -10
        after = _in_any(p, tx) and not _in(p, d)
    elif r.type == 'Insertion':
        donor = _gene2genomic(gs, ge, strand, r.attrs['DONOR_START'], r.attrs['DONOR_END'])
        anchor = _gene2genomic(gs, ge, strand, start, start + 1)[0]
        if not _in_any(anchor, tx):
            return -11             # insertion anchored outside the transcript
        if not donor[0] < donor[1]:
            return -12
        # the donor lies between the anchor and the next transcript base (transcript order)
        for s, e in tx:
            if strand == 1:
                if s <= anchor < e:
                    if not (anchor == e - 1 and donor[0] >= e):
                        return -13
                elif s > anchor and s < donor[1]:
                    return -13
            else:
                if s <= anchor < e:
                    if not (anchor == s and donor[1] <= s):
                        return -13
                elif e <= anchor and e > donor[0]:
                    return -13
        after = _in_any(p, tx) or _in(p, donor)
    elif r.type == 'Substitution':
        d = _gene2genomic(gs, ge, strand, start, end)
        donor = _gene2genomic(gs, ge, strand, r.attrs['DONOR_START'], r.attrs['DONOR_END'])
        if r.attrs['START'] != start or r.attrs['END'] != end:
            return -10
        # the donor replaces the deleted stretch in place: no remaining transcript base between them
        lo, hi = min(d[0], donor[0]), max(d[1], donor[1])
        for s, e in tx:
            if s >= lo and e <= hi and not (s >= d[0] and e <= d[1]):
                return -14
        after = (_in_any(p, tx) and not _in(p, d)) or _in(p, donor)
    else:
        return -15
    if after != _in_any(p, alt):
        return -1                  # applying the record does not give the alternative form
    return OK


CODES = {-1: 'applying the emitted record to the transcript does not give the alternative isoform',
         -2: 'a record was emitted although every junction of the event is annotated',
         -3: 'a record was emitted although the read support is below the threshold',
         -4: 'a record was emitted for a form the transcript already has',
         -10: 'START/END attributes disagree with the record location',
         -11: 'insertion anchored outside the transcript', -12: 'empty donor segment',
         -13: 'inserted segment not placed directly after its anchor in transcript order',
         -14: 'substituted segment not in place of the deleted one', -15: 'unexpected record type'}


def _genome(ge):
    return {'chr1': dna.DNASeqRecord(blank_seq(ge), id='chr1', name='chr1', description='chr1')}


def _run(rec, anno, ge, min_ijc, min_sjc):
    return rec.convert_to_variant_records(anno, _genome(ge), min_ijc, min_sjc)


def _judge(recs, gs, ge, strand, forms, expect_none, p):
    """forms: {tx_id: (tx exons, alt exons or None)}"""
    if expect_none is not None:
        return OK if not recs else expect_none
    for r in recs:
        tx, alt = forms[r.attrs['TRANSCRIPT_ID']]
        if alt is None:
            return -4
        c = _check_record(r, gs, ge, strand, tx, alt, p)
        if c != OK:
            return c
    return OK


# ------------------------------------------------------------------ SE
def _se(cfg, gs, ge, strand, u, x, d, r_, ijc, sjc, min_ijc, min_sjc, p):
    """cfg 0: only inclusion isoform annotated; 1: only skipping isoform; 2: both"""
    coords = [gs, u[0], u[1], x[0], x[1], d[0], d[1], r_[0], r_[1], ge]
    if not (gs <= u[0] and _increasing(coords[1:9]) and r_[1] <= ge):
        return SKIP
    inc, skp = [u, x, d, r_], [u, d, r_]
    txs = [[inc], [skp], [inc, skp]][cfg]
    anno = anno_multi(gs, ge, strand, txs)
    rec = SERecord('G1', 'S', 'chr1', x[0], x[1], u[0], u[1], d[0], d[1], ijc, sjc, **TAIL)
    recs = _run(rec, anno, ge, min_ijc, min_sjc)
    if cfg == 2:
        return _judge(recs, gs, ge, strand, {}, -2, p)
    if cfg == 0:
        if sjc < min_sjc:
            return _judge(recs, gs, ge, strand, {}, -3, p)
        return _judge(recs, gs, ge, strand, {'T1': (inc, skp)}, None, p)
    if ijc < min_ijc:
        return _judge(recs, gs, ge, strand, {}, -3, p)
    return _judge(recs, gs, ge, strand, {'T1': (skp, inc)}, None, p)


_B = ('gene with <= 2 isoforms of <= 4 exons, all exon coordinates symbolic (< 59000), both strands, symbolic '
      'read counts and thresholds, arbitrary genomic probe position')


@cond('C16', bounds='SE; ' + _B, encodes=ENC + ['moPepGen.parser.RMATSParser.SERecord.convert_to_variant_records'],
      codes=CODES, tokens=True, timeout=600)
def c16_se(cfg: int, gs: int, ge: int, plus: bool, u0: int, u1: int, x0: int, x1: int, d0: int,
           d1: int, r0: int, r1: int, ijc: int, sjc: int, min_ijc: int, min_sjc: int, p: int) -> int:
    """
    pre: 0 <= cfg <= 2
    pre: 0 <= gs and ge < 59000
    pre: 0 <= ijc and 0 <= sjc and 0 <= min_ijc and 0 <= min_sjc
    post: _ >= 0
    """
    return _se(cfg, gs, ge, 1 if plus else -1, (u0, u1), (x0, x1), (d0, d1), (r0, r1), ijc, sjc,
               min_ijc, min_sjc, p)


# ------------------------------------------------------------------ A5SS / A3SS
def _altss(kind, cfg, gs, ge, strand, l0, l1, s, f, o, ijc, sjc, min_ijc, min_sjc, p):
    """kind 5/3.  The long exon is (l0, l1); the short exon shares one end with it and ends /
    starts at s; f: flanking exon; o: one more exon on the other side of the long exon."""
    # which end varies?  A5SS: the 3' end of the exon (donor site); A3SS: the 5' end (acceptor site)
    vary_right = (kind == 5) == (strand == 1)
    if vary_right:
        short = (l0, s)
        if not (gs <= o[0] and _increasing([o[0], o[1], l0, s, l1, f[0], f[1]]) and f[1] <= ge):
            return SKIP
        long_tx, short_tx = [o, (l0, l1), f], [o, short, f]
    else:
        short = (s, l1)
        if not (gs <= f[0] and _increasing([f[0], f[1], l0, s, l1, o[0], o[1]]) and o[1] <= ge):
            return SKIP
        long_tx, short_tx = [f, (l0, l1), o], [f, short, o]
    txs = [[long_tx], [short_tx], [long_tx, short_tx]][cfg]
    anno = anno_multi(gs, ge, strand, txs)
    cls = A5SSRecord if kind == 5 else A3SSRecord
    rec = cls('G1', 'S', 'chr1', l0, l1, short[0], short[1], f[0], f[1], ijc, sjc, **TAIL)
    recs = _run(rec, anno, ge, min_ijc, min_sjc)
    if cfg == 2:
        return _judge(recs, gs, ge, strand, {}, -2, p)
    if cfg == 0:               # long annotated -> the short form is the alternative (skipping count)
        if sjc < min_sjc:
            return _judge(recs, gs, ge, strand, {}, -3, p)
        return _judge(recs, gs, ge, strand, {'T1': (long_tx, short_tx)}, None, p)
    if ijc < min_ijc:
        return _judge(recs, gs, ge, strand, {}, -3, p)
    return _judge(recs, gs, ge, strand, {'T1': (short_tx, long_tx)}, None, p)


@cond('C16', bounds='A5SS; ' + _B, encodes=ENC + ['moPepGen.parser.RMATSParser.A5SSRecord.convert_to_variant_records'],
      codes=CODES, tokens=True, timeout=600)
def c16_a5ss(cfg: int, gs: int, ge: int, plus: bool, l0: int, l1: int, s: int, f0: int, f1: int,
             o0: int, o1: int, ijc: int, sjc: int, min_ijc: int, min_sjc: int, p: int) -> int:
    """
    pre: 0 <= cfg <= 2
    pre: 0 <= gs and ge < 59000
    pre: 0 <= ijc and 0 <= sjc and 0 <= min_ijc and 0 <= min_sjc
    post: _ >= 0
    """
    return _altss(5, cfg, gs, ge, 1 if plus else -1, l0, l1, s, (f0, f1), (o0, o1), ijc, sjc,
                  min_ijc, min_sjc, p)


@cond('C16', bounds='A3SS; ' + _B, encodes=ENC + ['moPepGen.parser.RMATSParser.A3SSRecord.convert_to_variant_records'],
      codes=CODES, tokens=True, timeout=600)
def c16_a3ss(cfg: int, gs: int, ge: int, plus: bool, l0: int, l1: int, s: int, f0: int, f1: int,
             o0: int, o1: int, ijc: int, sjc: int, min_ijc: int, min_sjc: int, p: int) -> int:
    """
    pre: 0 <= cfg <= 2
    pre: 0 <= gs and ge < 59000
    pre: 0 <= ijc and 0 <= sjc and 0 <= min_ijc and 0 <= min_sjc
    post: _ >= 0
    """
    return _altss(3, cfg, gs, ge, 1 if plus else -1, l0, l1, s, (f0, f1), (o0, o1), ijc, sjc,
                  min_ijc, min_sjc, p)


# ------------------------------------------------------------------ RI
def _ri(cfg, gs, ge, strand, u, d, o, ijc, sjc, min_ijc, min_sjc, p):
    """cfg 0: spliced isoform annotated; 1: retained isoform; 2: both.  o: an extra exon after d"""
    if not (gs <= u[0] and _increasing([u[0], u[1], d[0], d[1], o[0], o[1]]) and o[1] <= ge):
        return SKIP
    if not u[1] + 1 < d[0]:
        return SKIP                # intron of >= 2 nt (the retained-form test needs it)
    spl, ret = [u, d, o], [(u[0], d[1]), o]
    txs = [[spl], [ret], [spl, ret]][cfg]
    anno = anno_multi(gs, ge, strand, txs)
    rec = RIRecord('G1', 'S', 'chr1', u[0], d[1], u[0], u[1], d[0], d[1], ijc, sjc, **TAIL)
    recs = _run(rec, anno, ge, min_ijc, min_sjc)
    if cfg == 2:
        return _judge(recs, gs, ge, strand, {}, -2, p)
    if cfg == 0:
        if ijc < min_ijc:
            return _judge(recs, gs, ge, strand, {}, -3, p)
        return _judge(recs, gs, ge, strand, {'T1': (spl, ret)}, None, p)
    if sjc < min_sjc:
        return _judge(recs, gs, ge, strand, {}, -3, p)
    return _judge(recs, gs, ge, strand, {'T1': (ret, spl)}, None, p)


@cond('C16', bounds='RI; ' + _B, encodes=['moPepGen.parser.RMATSParser.RIRecord.convert_to_variant_records'],
      codes=CODES, tokens=True, timeout=600)
def c16_ri(cfg: int, gs: int, ge: int, plus: bool, u0: int, u1: int, d0: int, d1: int, o0: int,
           o1: int, ijc: int, sjc: int, min_ijc: int, min_sjc: int, p: int) -> int:
    """
    pre: 0 <= cfg <= 2
    pre: 0 <= gs and ge < 59000
    pre: 0 <= ijc and 0 <= sjc and 0 <= min_ijc and 0 <= min_sjc
    post: _ >= 0
    """
    return _ri(cfg, gs, ge, 1 if plus else -1, (u0, u1), (d0, d1), (o0, o1), ijc, sjc, min_ijc,
               min_sjc, p)


# ------------------------------------------------------------------ MXE
def _mxe(cfg, gs, ge, strand, u, x1, x2, d, ijc, sjc, min_ijc, min_sjc, p):
    """cfg 0: isoform with the first exon annotated; 1: with the second; 2: both"""
    if not (gs <= u[0] and _increasing([u[0], u[1], x1[0], x1[1], x2[0], x2[1], d[0], d[1]])
            and d[1] <= ge):
        return SKIP
    first, second = [u, x1, d], [u, x2, d]
    txs = [[first], [second], [first, second]][cfg]
    anno = anno_multi(gs, ge, strand, txs)
    rec = MXERecord('G1', 'S', 'chr1', x1[0], x1[1], x2[0], x2[1], u[0], u[1], d[0], d[1], ijc, sjc,
                    **TAIL)
    recs = _run(rec, anno, ge, min_ijc, min_sjc)
    if cfg == 2:
        return _judge(recs, gs, ge, strand, {}, -2, p)
    if cfg == 0:               # first annotated -> second (skipping count) is the alternative
        if sjc < min_sjc:
            return _judge(recs, gs, ge, strand, {}, -3, p)
        return _judge(recs, gs, ge, strand, {'T1': (first, second)}, None, p)
    if ijc < min_ijc:
        return _judge(recs, gs, ge, strand, {}, -3, p)
    return _judge(recs, gs, ge, strand, {'T1': (second, first)}, None, p)


@cond('C16', bounds='MXE; ' + _B, encodes=ENC + ['moPepGen.parser.RMATSParser.MXERecord.convert_to_variant_records'],
      codes=CODES, tokens=True, timeout=600)
def c16_mxe(cfg: int, gs: int, ge: int, plus: bool, u0: int, u1: int, a0: int, a1: int, b0: int,
            b1: int, d0: int, d1: int, ijc: int, sjc: int, min_ijc: int, min_sjc: int, p: int) -> int:
    """
    pre: 0 <= cfg <= 2
    pre: 0 <= gs and ge < 59000
    pre: 0 <= ijc and 0 <= sjc and 0 <= min_ijc and 0 <= min_sjc
    post: _ >= 0
    """
    return _mxe(cfg, gs, ge, 1 if plus else -1, (u0, u1), (a0, a1), (b0, b1), (d0, d1), ijc, sjc,
                min_ijc, min_sjc, p)


# ------------------------------------------------------------------ A5SS / A3SS with interjacent exons
def _altss_inter(kind, gs, ge, strand, l0, l1, s, f, e1, e2, k, sjc, min_sjc, p):
    """long form annotated, k (0..2) further exons between the long exon and the flanking exon;
    the alternative (short) form joins the short splice site directly to the flanking exon"""
    vary_right = (kind == 5) == (strand == 1)
    mid = [e1, e2][:k]
    if vary_right:
        short = (l0, s)
        seq = [l0, s, l1] + [c for e in mid for c in e] + [f[0], f[1]]
        if not (gs <= l0 and _increasing(seq) and f[1] <= ge):
            return SKIP
        long_tx = [(l0, l1)] + mid + [f]
        short_tx = [short, f]
    else:
        short = (s, l1)
        seq = [f[0], f[1]] + [c for e in mid for c in e] + [l0, s, l1]
        if not (gs <= f[0] and _increasing(seq) and l1 <= ge):
            return SKIP
        long_tx = [f] + mid + [(l0, l1)]
        short_tx = [f, short]
    anno = anno_multi(gs, ge, strand, [long_tx])
    cls = A5SSRecord if kind == 5 else A3SSRecord
    rec = cls('G1', 'S', 'chr1', l0, l1, short[0], short[1], f[0], f[1], 0, sjc, **TAIL)
    recs = _run(rec, anno, ge, 1, min_sjc)       # ijc 0 < min_ijc 1: only the short junction counts
    if sjc < min_sjc:
        return _judge(recs, gs, ge, strand, {}, -3, p)
    return _judge(recs, gs, ge, strand, {'T1': (long_tx, short_tx)}, None, p)


@cond('C16', bounds='A5SS and A3SS, long form annotated with 0..2 further exons between the long exon and the '
      'flanking exon; all coordinates symbolic (< 59000), both strands', encodes=ENC, codes=CODES,
      tokens=True, timeout=600)
def c16_altss_interjacent(kind5: bool, gs: int, ge: int, plus: bool, l0: int, l1: int, s: int,
                          f0: int, f1: int, a0: int, a1: int, b0: int, b1: int, k: int, sjc: int,
                          min_sjc: int, p: int) -> int:
    """
    pre: 0 <= gs and ge < 59000
    pre: 0 <= k <= 2
    pre: 0 <= sjc and 0 <= min_sjc
    post: _ >= 0
    """
    return _altss_inter(5 if kind5 else 3, gs, ge, 1 if plus else -1, l0, l1, s, (f0, f1), (a0, a1),
                        (b0, b1), k, sjc, min_sjc, p)
