"""C17: parseCIRCexplorer.  Real CIRCexplorer2KnownRecord.convert_to_circ_rna,
GenomicAnnotation.find_exon_index / find_intron_index, CircRNAModel.get_circ_rna_sequence
and the parse_circexplorer record loop, on annotations with symbolic coordinates."""
import argparse
import sys
from typing import List

import moPepGen.cli.parse_circexplorer  # noqa: F401
from moPepGen import dna, err
from moPepGen.parser.CIRCexplorerParser import (CIRCexplorer2KnownRecord,
                                                CIRCexplorer3KnownRecord)
from mpgverif.harness.annobuild import anno_one_gene, exons_valid
from mpgverif.hlib import OK, SKIP, NullLogger, comp, cond, mkseq, patched, seq_points

USE_SHIM = True
USE_TOKENS = True

pce = sys.modules['moPepGen.cli.parse_circexplorer']
ENC = ['moPepGen.parser.CIRCexplorerParser.CIRCexplorer2KnownRecord.convert_to_circ_rna',
       'moPepGen.gtf.GenomicAnnotation.find_exon_index', 'moPepGen.gtf.GenomicAnnotation.find_intron_index',
       'moPepGen.gtf.GenomicAnnotation.feature_coordinate_gene_to_genomic']


def _rec(start, end, sizes, offsets, circ_type, reads=5, cls=CIRCexplorer2KnownRecord, **kw):
    return cls(chrom='chr1', start=start, end=end, name='c', score=0, strand='+',
               thick_start=start, thick_end=start, item_rgb=(0, 0, 0), exon_count=len(sizes),
               exon_sizes=sizes, exon_offsets=offsets, read_number=reads, circ_type=circ_type,
               gene_name='G1N', isoform_name='T1', index=[1], flank_intron='x', **kw)


def _gene_iv(gs, ge, strand, s, e):
    """strand-corrected gene-coordinate interval of genomic [s, e)"""
    return (s - gs, e - gs) if strand == 1 else (ge - e, ge - s)


def _check_exonic(gs, ge, strand, exons, i0, i1, d0, d1):
    """blocks = exons i0 and i1 (i0 <= i1; one block if equal), first block start shifted by
    d0 and last block end shifted by d1 (non-zero shifts = blocks that are not annotated exons)"""
    if not exons_valid(gs, ge, exons):
        return SKIP
    n = len(exons)
    if not 0 <= i0 <= i1 < n:
        return SKIP
    blocks = [exons[i0]] if i0 == i1 else [exons[i0], exons[i1]]
    blocks = [(s, e) for s, e in blocks]
    blocks[0] = (blocks[0][0] + d0, blocks[0][1])
    blocks[-1] = (blocks[-1][0], blocks[-1][1] + d1)
    for s, e in blocks:
        if not gs <= s < e <= ge:
            return SKIP
    if len(blocks) == 2 and not blocks[0][1] < blocks[1][0]:
        return SKIP
    annotated = all(any(s == x and e == y for x, y in exons) for s, e in blocks)
    anno = anno_one_gene(gs, ge, strand, exons)
    start, end = blocks[0][0], blocks[-1][1]
    rec = _rec(start, end, [e - s for s, e in blocks], [s - start for s, e in blocks], 'circRNA')
    try:
        m = rec.convert_to_circ_rna(anno)
    except err.ExonNotFoundError:
        return OK if not annotated else -1              # annotated exons rejected
    if not annotated:
        return -2                                       # block that is no annotated exon accepted
    if len(m.fragments) != len(blocks):
        return -3
    for k, (s, e) in enumerate(blocks):
        a, b = _gene_iv(gs, ge, strand, s, e)
        f = m.fragments[k].location
        if f.start != a or f.end != b:
            return -4                                   # fragment != strand-corrected block
    a, b = _gene_iv(gs, ge, strand, start, end)
    if m.backsplicing_site.start != a or m.backsplicing_site.end != b:
        return -5
    if m.id != f"CIRC-T1-{a}:{b}":
        return -6                                       # id does not encode the back-splice site
    if m.intron != [] or m.transcript_id != 'T1' or m.gene_id != 'G1':
        return -7
    if m.genomic_position != f"chr1:{start}:{end}":
        return -8
    return OK


CODES = {-1: 'record made of annotated exons rejected', -2: 'block that is not an annotated exon accepted',
         -3: 'number of fragments wrong', -4: 'fragment interval differs from the strand-corrected block',
         -5: 'back-splice site wrong', -6: 'id does not encode the back-splice coordinates',
         -7: 'intron list / ids wrong', -8: 'genomic position wrong',
         -11: 'ciRNA matching the intron within the tolerances rejected',
         -12: 'ciRNA outside the tolerances accepted', -13: 'ciRNA fragment != strand-corrected block',
         -14: 'ciRNA not flagged as intron fragment'}


@cond('C17', bounds='3-exon transcript, gene span around it, coordinates < 59000, both strands; record = 1 '
      'or 2 exon blocks, optionally with shifted outer boundaries', encodes=ENC, codes=CODES,
      tokens=True, timeout=400)
def c17_exonic(gs: int, ge: int, plus: bool, a0: int, b0: int, a1: int, b1: int, a2: int,
               b2: int, i0: int, i1: int, d0: int, d1: int) -> int:
    """
    pre: 0 <= gs and ge < 59000
    pre: -2 <= d0 <= 2 and -2 <= d1 <= 2
    post: _ >= 0
    """
    return _check_exonic(gs, ge, 1 if plus else -1, [(a0, b0), (a1, b1), (a2, b2)], i0, i1, d0, d1)


def _check_cirna(gs, ge, strand, exons, s, e, sr0, sr1, er0, er1):
    """one block [s, e) overlapping the single intron of a 2-exon transcript"""
    if not exons_valid(gs, ge, exons):
        return SKIP
    if not gs <= s < e <= ge:
        return SKIP
    if sr0 > sr1 or er0 > er1:
        return SKIP
    (x0, y0), (x1, y1) = exons
    # orientation-free description (5' = transcript upstream)
    if strand == 1:
        into_start = s - y0          # > 0: block starts inside the intron
        past_end = e - x1            # > 0: block runs into the downstream exon
    else:
        into_start = x1 - e
        past_end = y0 - s
    want = sr0 <= into_start <= sr1 and (er0 <= past_end <= er1 or past_end <= 0)
    # a block that does not even reach the intron region is out of scope of the tolerance rule
    anno = anno_one_gene(gs, ge, strand, exons)
    rec = _rec(s, e, [e - s], [0], 'ciRNA')
    try:
        m = rec.convert_to_circ_rna(anno, (sr0, sr1), (er0, er1))
    except err.IntronNotFoundError:
        return -11 if want else OK
    if not want:
        return -12
    a, b = _gene_iv(gs, ge, strand, s, e)
    f = m.fragments[0].location
    if len(m.fragments) != 1 or f.start != a or f.end != b:
        return -13
    if m.fragments[0].type != 'intron' or m.intron != [0]:
        return -14
    if m.id != f"CIRC-T1-{a}:{b}":
        return -6
    return OK


@cond('C17', bounds='2-exon transcript, ciRNA block anywhere in the gene, coordinates < 59000, both strands, '
      'symbolic intron start/end tolerance ranges in -120..120', encodes=ENC, codes=CODES, tokens=True,
      timeout=500)
def c17_cirna(gs: int, ge: int, plus: bool, a0: int, b0: int, a1: int, b1: int, s: int, e: int,
              sr0: int, sr1: int, er0: int, er1: int) -> int:
    """
    pre: 0 <= gs and ge < 59000
    pre: -120 <= sr0 <= 120 and -120 <= sr1 <= 120 and -120 <= er0 <= 120 and -120 <= er1 <= 120
    post: _ >= 0
    """
    return _check_cirna(gs, ge, 1 if plus else -1, [(a0, b0), (a1, b1)], s, e, sr0, sr1, er0, er1)


# --------------------------------------------------------------------------
@cond('C17', bounds='CIRCexplorer2/3 evidence thresholds over unbounded non-negative integers',
      encodes=['moPepGen.parser.CIRCexplorerParser.CIRCexplorer2KnownRecord.is_valid',
               'moPepGen.parser.CIRCexplorerParser.CIRCexplorer3KnownRecord.is_valid'],
      codes={-1: 'CIRCexplorer2 read threshold not applied exactly',
             -2: 'CIRCexplorer3 thresholds not applied exactly'}, tokens=True, timeout=120)
def c17_thresholds(reads: int, min_reads: int, fpb: int, min_fpb: int, score: int, min_score: int,
                   use_fpb: bool, use_score: bool) -> int:
    """
    pre: reads >= 0 and min_reads >= 0 and fpb >= 0 and min_fpb > 0 and score >= 0 and min_score > 0
    post: _ >= 0
    """
    r2 = _rec(0, 1, [1], [0], 'circRNA', reads=reads)
    if r2.is_valid(min_reads) != (reads >= min_reads):
        return -1
    r3 = _rec(0, 1, [1], [0], 'circRNA', reads=reads, cls=CIRCexplorer3KnownRecord, fpb_circ=fpb,
              fpb_linear=0, circ_score=score)
    got = r3.is_valid(min_reads, min_fpb if use_fpb else None, min_score if use_score else None)
    want = reads >= min_reads and (not use_fpb or fpb >= min_fpb) and (not use_score or score >= min_score)
    return OK if got == want else -2


# --------------------------------------------------------------------------
def _check_seq(genome, strand, exons, i0, i1, j):
    n = len(genome)
    gs, ge = 0, n
    if not exons_valid(gs, ge, exons) or not 0 <= i0 < i1 < len(exons):
        return SKIP
    anno = anno_one_gene(gs, ge, strand, exons)
    blocks = [exons[i0], exons[i1]]
    start, end = blocks[0][0], blocks[1][1]
    rec = _rec(start, end, [e - s for s, e in blocks], [s - start for s, e in blocks], 'circRNA')
    m = rec.convert_to_circ_rna(anno)
    chrom = dna.DNASeqRecord(mkseq(genome), id='chr1', name='chr1', description='chr1')
    gene_seq = anno.genes['G1'].get_gene_sequence(chrom)
    cseq = m.get_circ_rna_sequence(gene_seq)
    cp = seq_points(cseq.seq)
    total = sum(e - s for s, e in blocks)
    if len(cp) != total:
        return -1
    # blocks in transcript orientation
    order = blocks if strand == 1 else [blocks[1], blocks[0]]
    if 0 <= j < total:
        k = j
        for s, e in order:
            if k < e - s:
                g = s + k if strand == 1 else e - 1 - k
                base = genome[g] if strand == 1 else comp(genome[g])
                if cp[j] != base:
                    return -2
                break
            k -= e - s
    return OK


@cond('C17', bounds='chromosome of length 9 (any letters), 3-exon transcript, circRNA of two of its exons, both '
      'strands; concatenation goes through DNASeqRecordWithCoordinates.__add__', tokens=True,
      tiers=('thorough',),
      encodes=['moPepGen.circ.CircRNA.CircRNAModel.get_circ_rna_sequence',
               'moPepGen.dna.DNASeqRecord.DNASeqRecordWithCoordinates.__add__/__getitem__'],
      codes={-1: 'circular sequence length differs from the sum of the reported blocks',
             -2: 'circular sequence differs from the concatenated blocks in transcript orientation'},
      timeout=1500)
def c17_circ_sequence(genome: List[int], plus: bool, a0: int, b0: int, a1: int, b1: int, a2: int,
                      b2: int, i0: int, i1: int, j: int) -> int:
    """
    pre: len(genome) == 9
    pre: all(65 <= c <= 90 for c in genome)
    post: _ >= 0
    """
    return _check_seq(genome, 1 if plus else -1, [(a0, b0), (a1, b1), (a2, b2)], i0, i1, j)


# --------------------------------------------------------------------------
# CLI record loop
# --------------------------------------------------------------------------
class _FakeModel:
    def __init__(self, uid, gene_id):
        self.uid, self.gene_id = uid, gene_id


class _FakeRecord:
    def __init__(self, uid, valid, outcome, gene):
        self.uid, self.valid, self.outcome, self.gene = uid, valid, outcome, gene
        self.name = f'r{uid}'
        self.isoform_name = 'T'

    def is_valid(self, *a):
        return self.valid

    def convert_to_circ_rna(self, anno, sr, er):
        if self.outcome == 1:
            raise err.ExonNotFoundError('G', _Feat())
        if self.outcome == 2:
            raise err.IntronNotFoundError('G', _Feat())
        if self.outcome == 3:
            raise RuntimeError('boom')
        return _FakeModel(self.uid, ['G0', 'G1'][self.gene])


class _Feat:
    location = 'loc'


class _AnnoRank:
    def get_genes_rank(self):
        return {'G0': 0, 'G1': 1}


def _check_cli(valid, outcome, gene, ce3):
    n = len(valid)
    recs = [_FakeRecord(i, valid[i], outcome[i], gene[i]) for i in range(n)]
    written = []

    def fake_write(records, metadata, handle):
        written.extend(r.uid for r in records)

    class _H:
        def __enter__(self):
            return self

        def __exit__(self, *a):
            return False

    holder = {}
    real_tally = pce.TallyTable

    class Tally(real_tally):
        def __init__(self, logger):
            super().__init__(logger)
            holder['t'] = self

    args = argparse.Namespace(input_path='i', output_path='o', intron_start_range='-2,0',
                              intron_end_range='-100,5', circexplorer3=ce3, min_read_number=1,
                              min_fbr_circ=None, min_circ_score=None, command='parseCIRCexplorer',
                              source='circ', index_dir=None)
    first_boom = None
    for i in range(n):
        if valid[i] and outcome[i] == 3:
            first_boom = i
            break
    with patched((pce, 'get_logger', lambda: NullLogger()), (pce, 'TallyTable', Tally),
                 (pce.common, 'validate_file_format', lambda *a, **k: None),
                 (pce.common, 'print_start_message', lambda a: None),
                 (pce.common, 'load_references', lambda *a, **k: (None, _AnnoRank(), None, None)),
                 (pce.common, 'generate_metadata', lambda a: 'META'),
                 (pce.CIRCexplorerParser, 'parse', lambda path, ce3: iter(recs)),
                 (pce.circ.io, 'write', fake_write), (pce, 'open', lambda *a, **k: _H())):
        try:
            pce.parse_circexplorer(args)
        except RuntimeError:
            if first_boom is None:
                return -1
            return OK if not written else -2          # output written although the command failed
    if first_boom is not None:
        return -3                                     # unexpected failure swallowed
    good = [i for i in range(n) if valid[i] and outcome[i] == 0]
    want = [i for i in good if gene[i] == 0] + [i for i in good if gene[i] == 1]
    if written != want:
        return -4                                     # written records != accepted records (gene order)
    t = holder['t']
    n_ins = len([i for i in range(n) if not valid[i]])
    n_inv = len([i for i in range(n) if valid[i] and outcome[i] in (1, 2)])
    if t.total != n or t.skipped.insufficient_evidence != n_ins or t.skipped.invalid_record != n_inv \
            or t.skipped.total != n_ins + n_inv:
        return -5                                     # skipped records not counted exactly
    return OK


@cond('C17', bounds='record loop over 3 records: each valid/invalid evidence x {converts, unknown exon, '
      'unknown intron, other failure} x gene in 2; CIRCexplorer 2 and 3', tokens=True,
      encodes=['moPepGen.cli.parse_circexplorer.parse_circexplorer'],
      stubs=['CIRCexplorerParser.parse -> fake records', 'common.load_references / validate_file_format / '
             'generate_metadata', 'circ.io.write -> recorder', 'open'],
      codes={-1: 'exception although no record fails', -2: 'output written although the command failed',
             -3: 'a generic failure was swallowed', -4: 'written records differ from the accepted ones',
             -5: 'skipped records not counted exactly'}, timeout=300)
def c17_cli_loop(v0: bool, v1: bool, v2: bool, o0: int, o1: int, o2: int, g0: int, g1: int,
                 g2: int, ce3: bool) -> int:
    """
    pre: 0 <= o0 <= 3 and 0 <= o1 <= 3 and 0 <= o2 <= 3
    pre: 0 <= g0 <= 1 and 0 <= g1 <= 1 and 0 <= g2 <= 1
    post: _ >= 0
    """
    return _check_cli([v0, v1, v2], [o0, o1, o2], [g0, g1, g2], ce3)


@cond('C17', bounds='chromosome of length 7 (any letters), 2-exon transcript, circRNA of both exons, both '
      'strands; concatenation goes through DNASeqRecordWithCoordinates.__add__', tokens=True,
      encodes=['moPepGen.circ.CircRNA.CircRNAModel.get_circ_rna_sequence',
               'moPepGen.dna.DNASeqRecord.DNASeqRecordWithCoordinates.__add__/__getitem__'],
      codes={-1: 'circular sequence length differs from the sum of the reported blocks',
             -2: 'circular sequence differs from the concatenated blocks in transcript orientation'},
      timeout=400)
def c17_circ_sequence2(genome: List[int], plus: bool, a0: int, b0: int, a1: int, b1: int,
                       j: int) -> int:
    """
    pre: len(genome) == 7
    pre: all(65 <= c <= 90 for c in genome)
    post: _ >= 0
    """
    return _check_seq(genome, 1 if plus else -1, [(a0, b0), (a1, b1)], 0, 1, j)
