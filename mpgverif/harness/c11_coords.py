"""C11-1/2/3: coordinate conversions, sequence extraction and ORF/Sec positions on
annotations built from symbolic exon coordinates (real model classes, Bio shim)."""
from typing import List

from moPepGen import dna
from mpgverif.harness.annobuild import (anno_one_gene, exons_valid, genomic_oracle,
                                        tx_index_oracle, tx_len)
from mpgverif.hlib import OK, SKIP, blank_seq, comp, cond, mkseq, seq_points

USE_SHIM = True
USE_TOKENS = False

ENC1 = ['moPepGen.gtf.GenomicAnnotation.coordinate_transcript_to_genomic',
                'moPepGen.gtf.TranscriptAnnotationModel.get_transcript_index']


def _check_g2t(strand, exons, g):
    """arbitrary genomic position -> transcript index and back"""
    gs, ge = exons[0][0], exons[-1][1]
    if not exons_valid(gs, ge, exons):
        return SKIP
    anno = anno_one_gene(gs, ge, strand, exons)
    want = tx_index_oracle(exons, strand, g)
    try:
        got = anno.transcripts['T1'].get_transcript_index(g)
        if want is None:
            return -1              # intronic / outside position mapped instead of rejected
        if got != want:
            return -2              # wrong transcript index
        if anno.coordinate_transcript_to_genomic(got, 'T1') != g:
            return -3              # not inverse
    except ValueError:
        if want is not None:
            return -4              # exonic position rejected
    return OK


def _check_t2g(strand, exons, t):
    """arbitrary transcript index -> genomic position and back"""
    gs, ge = exons[0][0], exons[-1][1]
    if not exons_valid(gs, ge, exons):
        return SKIP
    anno = anno_one_gene(gs, ge, strand, exons)
    n = tx_len(exons)
    if 0 <= t < n:
        gg = anno.coordinate_transcript_to_genomic(t, 'T1')
        if gg != genomic_oracle(exons, strand, t):
            return -5
        if anno.transcripts['T1'].get_transcript_index(gg) != t:
            return -6
    elif t >= n:
        try:
            anno.coordinate_transcript_to_genomic(t, 'T1')
            return -7              # out-of-range transcript index mapped
        except ValueError:
            pass
    else:
        return SKIP                # negative indices are not transcript coordinates
    return OK


CODES1 = {-1: 'intronic / out-of-range genomic position mapped to a transcript index',
          -2: 'wrong transcript index for an exonic position',
          -3: 'transcript->genomic is not the inverse of genomic->transcript',
          -4: 'exonic genomic position rejected',
          -5: 'transcript index mapped to the wrong genomic position',
          -6: 'get_transcript_index not inverse of coordinate_transcript_to_genomic',
          -7: 'out-of-range transcript index mapped'}
_UB = 'UNBOUNDED integer coordinates, both strands, arbitrary probe position'


@cond('C11', bounds='genomic->transcript, 1 exon, ' + _UB, encodes=ENC1, codes=CODES1, timeout=120)
def c11_g2t_1exon(plus: bool, a0: int, b0: int, g: int) -> int:
    """
    pre: a0 >= 0
    post: _ >= 0
    """
    return _check_g2t(1 if plus else -1, [(a0, b0)], g)


@cond('C11', bounds='genomic->transcript, 2 exons, ' + _UB, encodes=ENC1, codes=CODES1, timeout=200)
def c11_g2t_2exons(plus: bool, a0: int, b0: int, a1: int, b1: int, g: int) -> int:
    """
    pre: a0 >= 0
    post: _ >= 0
    """
    return _check_g2t(1 if plus else -1, [(a0, b0), (a1, b1)], g)


@cond('C11', bounds='genomic->transcript, 3 exons, ' + _UB, encodes=ENC1, codes=CODES1, timeout=400)
def c11_g2t_3exons(plus: bool, a0: int, b0: int, a1: int, b1: int, a2: int, b2: int,
                   g: int) -> int:
    """
    pre: a0 >= 0
    post: _ >= 0
    """
    return _check_g2t(1 if plus else -1, [(a0, b0), (a1, b1), (a2, b2)], g)


@cond('C11', bounds='genomic->transcript, 4 exons, ' + _UB, encodes=ENC1, codes=CODES1, timeout=1500,
      tiers=('thorough',))
def c11_g2t_4exons(plus: bool, a0: int, b0: int, a1: int, b1: int, a2: int, b2: int,
                   a3: int, b3: int, g: int) -> int:
    """
    pre: a0 >= 0
    post: _ >= 0
    """
    return _check_g2t(1 if plus else -1, [(a0, b0), (a1, b1), (a2, b2), (a3, b3)], g)


@cond('C11', bounds='transcript->genomic, 2 exons, ' + _UB, encodes=ENC1, codes=CODES1, timeout=200)
def c11_t2g_2exons(plus: bool, a0: int, b0: int, a1: int, b1: int, t: int) -> int:
    """
    pre: a0 >= 0
    post: _ >= 0
    """
    return _check_t2g(1 if plus else -1, [(a0, b0), (a1, b1)], t)


@cond('C11', bounds='transcript->genomic, 3 exons, ' + _UB, encodes=ENC1, codes=CODES1, timeout=400)
def c11_t2g_3exons(plus: bool, a0: int, b0: int, a1: int, b1: int, a2: int, b2: int,
                   t: int) -> int:
    """
    pre: a0 >= 0
    post: _ >= 0
    """
    return _check_t2g(1 if plus else -1, [(a0, b0), (a1, b1), (a2, b2)], t)


@cond('C11', bounds='transcript->genomic, 4 exons, ' + _UB, encodes=ENC1, codes=CODES1, timeout=1500,
      tiers=('thorough',))
def c11_t2g_4exons(plus: bool, a0: int, b0: int, a1: int, b1: int, a2: int, b2: int,
                   a3: int, b3: int, t: int) -> int:
    """
    pre: a0 >= 0
    post: _ >= 0
    """
    return _check_t2g(1 if plus else -1, [(a0, b0), (a1, b1), (a2, b2), (a3, b3)], t)


# --------------------------------------------------------------------------
# sequences
# --------------------------------------------------------------------------
ENC2 = ['moPepGen.gtf.TranscriptAnnotationModel.get_transcript_sequence',
        'moPepGen.gtf.GeneAnnotationModel.get_gene_sequence',
        'moPepGen.gtf.TranscriptAnnotationModel.get_cdna_sequence',
        'moPepGen.dna.DNASeqRecord.DNASeqRecordWithCoordinates.__add__/__getitem__']


def _chrom(genome):
    return dna.DNASeqRecord(mkseq(genome), id='chr1', name='chr1', description='chr1')


def _check_seq(genome, strand, exons, j):
    """transcript sequence; the gene spans the whole chromosome; j: probe index"""
    n = len(genome)
    gs, ge = 0, n
    if not exons_valid(gs, ge, exons):
        return SKIP
    anno = anno_one_gene(gs, ge, strand, exons)
    chrom = _chrom(genome)
    tm = anno.transcripts['T1']
    tseq = tm.get_transcript_sequence(chrom)
    tp = seq_points(tseq.seq)
    ln = tx_len(exons)
    if len(tp) != ln:
        return -1                  # transcript length != sum of exon lengths
    if 0 <= j < ln:
        g = genomic_oracle(exons, strand, j)
        base = genome[g] if strand == 1 else comp(genome[g])
        if tp[j] != base:
            return -2              # transcript base != strand-corrected genome at the mapped position
    # the location bookkeeping of the transcript record covers the whole sequence
    loc = tseq.locations[0]
    if loc.query.start != 0 or loc.query.end != ln or loc.ref.start != 0 or loc.ref.end != ln:
        return -5
    return OK


def _check_gene_seq(genome, gs, ge, strand, j):
    n = len(genome)
    if not (0 <= gs < ge <= n):
        return SKIP
    anno = anno_one_gene(gs, ge, strand, [(gs, ge)])
    gseq = anno.genes['G1'].get_gene_sequence(_chrom(genome))
    gp = seq_points(gseq.seq)
    if len(gp) != ge - gs:
        return -3
    if 0 <= j < ge - gs:
        g = gs + j if strand == 1 else ge - 1 - j
        base = genome[g] if strand == 1 else comp(genome[g])
        if gp[j] != base:
            return -4              # gene base != strand-corrected genome
        if anno.coordinate_gene_to_genomic(j, 'G1') != g:
            return -6
    loc = gseq.locations[0]
    if loc.ref.start != 0 or loc.ref.end != ge - gs:
        return -5
    return OK


CODES2 = {-1: 'transcript length differs from the sum of exon lengths',
          -2: 'transcript base differs from the strand-corrected genome at the mapped position',
          -3: 'gene sequence length differs from the gene span',
          -4: 'gene base differs from the strand-corrected genome at the mapped position',
          -5: 'location bookkeeping of the extracted sequence wrong',
          -6: 'gene coordinate of a gene-sequence base does not map back to its genomic position'}


@cond('C11', bounds='chromosome of length 8 (any letters), 2 exons anywhere, both strands; '
      'multi-exon concatenation goes through SeqRecord.__add__', encodes=ENC2, codes=CODES2,
      timeout=500)
def c11_seq_2exons(genome: List[int], plus: bool, a0: int, b0: int, a1: int, b1: int,
                   j: int) -> int:
    """
    pre: len(genome) == 8
    pre: all(65 <= c <= 90 for c in genome)
    post: _ >= 0
    """
    return _check_seq(genome, 1 if plus else -1, [(a0, b0), (a1, b1)], j)


def _check_cdna(genome, strand, exons, j):
    """CDS (cDNA) sequence of a transcript whose CDS pieces are its exons: equals the strand-corrected genome
    at the mapped positions, pieces joined in transcript order"""
    n = len(genome)
    if not exons_valid(0, n, exons):
        return SKIP
    anno = anno_one_gene(0, n, strand, exons, cds=list(exons))
    tm = anno.transcripts['T1']
    tm.transcript.attributes['protein_id'] = 'P1'
    cdna = tm.get_cdna_sequence(_chrom(genome))
    cp = seq_points(cdna.seq)
    ln = tx_len(exons)
    if len(cp) != ln:
        return -1
    if 0 <= j < ln:
        g = genomic_oracle(exons, strand, j)
        base = genome[g] if strand == 1 else comp(genome[g])
        if cp[j] != base:
            return -2              # CDS base != strand-corrected genome at the mapped position
    loc = cdna.locations[0]
    if loc.query.start != 0 or loc.query.end != ln or loc.ref.start != 0 or loc.ref.end != ln:
        return -5
    return OK


@cond('C11', bounds='CDS sequence: chromosome of length 8 (any letters), 2 CDS pieces (= the 2 exons) anywhere, both '
      'strands', encodes=['moPepGen.gtf.TranscriptAnnotationModel.get_cdna_sequence / get_cds_start_index'],
      codes=CODES2, timeout=500)
def c11_cdna_2pieces(genome: List[int], plus: bool, a0: int, b0: int, a1: int, b1: int,
                     j: int) -> int:
    """
    pre: len(genome) == 8
    pre: all(65 <= c <= 90 for c in genome)
    post: _ >= 0
    """
    return _check_cdna(genome, 1 if plus else -1, [(a0, b0), (a1, b1)], j)


@cond('C11', bounds='chromosome of length 10 (any letters), 3 exons anywhere, both strands',
      encodes=ENC2, codes=CODES2, timeout=2400, tiers=('thorough',))
def c11_seq_3exons(genome: List[int], plus: bool, a0: int, b0: int, a1: int, b1: int,
                   a2: int, b2: int, j: int) -> int:
    """
    pre: len(genome) == 10
    pre: all(65 <= c <= 90 for c in genome)
    post: _ >= 0
    """
    return _check_seq(genome, 1 if plus else -1, [(a0, b0), (a1, b1), (a2, b2)], j)


@cond('C11', bounds='chromosome of length <= 8 (any letters), gene span anywhere, both strands',
      encodes=ENC2, codes=CODES2, timeout=300)
def c11_gene_seq(genome: List[int], gs: int, ge: int, plus: bool, j: int) -> int:
    """
    pre: 1 <= len(genome) <= 8
    pre: all(65 <= c <= 90 for c in genome)
    post: _ >= 0
    """
    return _check_gene_seq(genome, gs, ge, 1 if plus else -1, j)


# --------------------------------------------------------------------------
# ORF / selenocysteine positions
# --------------------------------------------------------------------------
ENC3 = ['moPepGen.gtf.TranscriptAnnotationModel.get_cds_start_index',
        'moPepGen.gtf.TranscriptAnnotationModel.get_cds_end_index',
        'moPepGen.gtf.TranscriptAnnotationModel.get_transcript_sequence (orf, selenocysteine)']


def _check_orf(glen, strand, exons, cs, ce, frame, utr_split, sec_k, utr_records=True, ensembl_utr=False):
    """CDS = [cs, ce) in TRANSCRIPT-STRAND-INDEPENDENT genomic coordinates restricted to
    exons; 3'UTR = rest of the exons downstream (in transcript direction) of the CDS,
    optionally split into per-exon pieces; one Sec codon at CDS offset 3*sec_k."""
    gs, ge = 0, glen
    if not exons_valid(gs, ge, exons):
        return SKIP
    if not (exons[0][0] <= cs < ce <= exons[-1][1]):
        return SKIP
    # CDS pieces and UTR pieces = intersections with exons
    cds, up, down = [], [], []
    for s, e in exons:
        a, b = max(s, cs), min(e, ce)
        if a < b:
            cds.append((a, b))
        if s < cs:
            up.append((s, min(e, cs)))
        if e > ce:
            down.append((max(s, ce), e))
    if not cds:
        return SKIP
    if sum(b - a for a, b in cds) < frame + 3:
        return SKIP               # degenerate: no complete codon
    if tx_index_oracle(exons, strand, cs) is None or tx_index_oracle(exons, strand, ce - 1) is None:
        return SKIP               # CDS ends must be exonic
    three = down if strand == 1 else up
    if ensembl_utr:
        # ENSEMBL GTFs list the stop codon separately: the three_prime_utr record starts 3 nt after the CDS end
        if not three:
            return SKIP
        if strand == 1:
            s0, e0 = three[0]
            if e0 - s0 < 4:
                return SKIP
            three = [(s0 + 3, e0)] + three[1:]
        else:
            s0, e0 = three[-1]
            if e0 - s0 < 4:
                return SKIP
            three = three[:-1] + [(s0, e0 - 3)]
    geometric_rest = bool(down if strand == 1 else up)
    if not utr_split and len(three) > 1:
        return SKIP               # covered by the split variant
    # frames: only the 5'-most CDS piece carries the symbolic frame
    frames = [0] * len(cds)
    if strand == 1:
        frames[0] = frame
    else:
        frames[-1] = frame
    first = tx_index_oracle(exons, strand, cs if strand == 1 else ce - 1)   # 5'-most CDS base
    last = tx_index_oracle(exons, strand, ce - 1 if strand == 1 else cs)    # 3'-most CDS base
    sec = None
    if sec_k >= 0:
        # Sec codon = transcript indices [first+frame+3k, +3) must be exonic & contiguous on genome
        t0 = first + frame + 3 * sec_k
        if t0 + 2 > last:
            return SKIP
        sec_t = (t0, t0 + 3)
    # utr_records False: an annotation that lists exons and CDS only (no UTR rows) - the ORF still ends with the CDS
    anno = anno_one_gene(gs, ge, strand, exons, cds=cds, cds_frames=frames, three_utr=three if utr_records else [])
    tm = anno.transcripts['T1']
    if sec_k >= 0:
        g0 = genomic_oracle(exons, strand, sec_t[0])
        g2 = genomic_oracle(exons, strand, sec_t[1] - 1)
        lo, hi = (g0, g2) if strand == 1 else (g2, g0)
        if hi - lo != 2:
            return SKIP           # codon split by an intron: GTF lists it as two features
        from mpgverif.harness.annobuild import feat
        tm.selenocysteine = [feat('chr1', lo, hi + 1, strand, 'selenocysteine',
                                  {'gene_id': 'G1', 'transcript_id': 'T1'})]
    tseq = tm.get_transcript_sequence(dna.DNASeqRecord(blank_seq(glen), id='c', name='c', description='c'))
    orf = tseq.orf
    n = tx_len(exons)
    if orf.start != first + frame:
        return -1                  # ORF start != transcript index of the 5'-most CDS base + frame
    if (orf.end - orf.start) % 3 != 0:
        return -2
    if orf.end > n or orf.end < orf.start:
        return -3
    if geometric_rest:
        # whenever the transcript continues after the CDS the ORF ends at the last complete codon of the CDS
        cds_end_t = last + 1
        if orf.end != cds_end_t - (cds_end_t - orf.start) % 3:
            return -4              # ORF end disagrees with the CDS end
    else:
        if orf.end != n - (n - orf.start) % 3:
            return -5
    if sec_k >= 0:
        if len(tseq.selenocysteine) != 1:
            return -6
        s = tseq.selenocysteine[0]
        if s.start != sec_t[0] or s.end != sec_t[1]:
            return -7              # Sec position disagrees with the feature
    return OK


CODES3 = {-1: "ORF start differs from the transcript index of the 5'-most CDS base plus frame",
          -2: 'ORF length not a multiple of 3', -3: 'ORF end outside the transcript',
          -4: "ORF end disagrees with the annotated CDS end (the transcript continues after the CDS)",
          -5: "ORF end (no 3'UTR) is not the last complete codon of the transcript",
          -6: 'number of selenocysteine positions wrong', -7: 'selenocysteine position disagrees with the feature'}


_OB = ("CDS = any exonic interval with >= 1 complete codon, frame 0..2, 3'UTR = exonic remainder "
       "downstream of the CDS (one feature per exon), UNBOUNDED coordinates; sequence content stubbed (length only)")


@cond('C11', bounds='ORF, 2 exons, plus strand, no Sec; ' + _OB, encodes=ENC3, codes=CODES3, timeout=500)
def c11_orf_2exons_plus(glen: int, a0: int, b0: int, a1: int, b1: int, cs: int, ce: int,
                        frame: int) -> int:
    """
    pre: 0 <= glen
    pre: 0 <= frame <= 2
    post: _ >= 0
    """
    return _check_orf(glen, 1, [(a0, b0), (a1, b1)], cs, ce, frame, True, -1)


@cond('C11', bounds='ORF, 2 exons, minus strand, no Sec; ' + _OB, encodes=ENC3, codes=CODES3, timeout=500)
def c11_orf_2exons_minus(glen: int, a0: int, b0: int, a1: int, b1: int, cs: int, ce: int,
                         frame: int) -> int:
    """
    pre: 0 <= glen
    pre: 0 <= frame <= 2
    post: _ >= 0
    """
    return _check_orf(glen, -1, [(a0, b0), (a1, b1)], cs, ce, frame, True, -1)


@cond('C11', bounds='ORF, 3 exons, plus strand, no Sec; ' + _OB, encodes=ENC3, codes=CODES3, timeout=800)
def c11_orf_3exons_plus(glen: int, a0: int, b0: int, a1: int, b1: int, a2: int, b2: int,
                        cs: int, ce: int, frame: int) -> int:
    """
    pre: 0 <= glen
    pre: 0 <= frame <= 2
    post: _ >= 0
    """
    return _check_orf(glen, 1, [(a0, b0), (a1, b1), (a2, b2)], cs, ce, frame, True, -1)


@cond('C11', bounds='ORF, 3 exons, minus strand, no Sec; ' + _OB, encodes=ENC3, codes=CODES3, timeout=800)
def c11_orf_3exons_minus(glen: int, a0: int, b0: int, a1: int, b1: int, a2: int, b2: int,
                         cs: int, ce: int, frame: int) -> int:
    """
    pre: 0 <= glen
    pre: 0 <= frame <= 2
    post: _ >= 0
    """
    return _check_orf(glen, -1, [(a0, b0), (a1, b1), (a2, b2)], cs, ce, frame, True, -1)


@cond('C11', bounds="ORF, 2 exons, both strands, ENSEMBL-style annotation (the three_prime_utr record starts after the stop codon, 3 nt "
      "past the CDS end); CDS = any exonic interval with >= 1 complete codon, frame 0..2, UNBOUNDED coordinates",
      encodes=ENC3, codes=CODES3, timeout=500)
def c11_orf_2exons_ensembl_utr(glen: int, plus: bool, a0: int, b0: int, a1: int, b1: int, cs: int, ce: int,
                               frame: int) -> int:
    """
    pre: 0 <= glen
    pre: 0 <= frame <= 2
    post: _ >= 0
    """
    return _check_orf(glen, 1 if plus else -1, [(a0, b0), (a1, b1)], cs, ce, frame, True, -1, ensembl_utr=True)


@cond('C11', bounds="ORF, 2 exons, both strands, annotation WITHOUT UTR records (exon and CDS rows only) although the transcript "
      "continues after the CDS; CDS = any exonic interval with >= 1 complete codon, frame 0..2, UNBOUNDED coordinates",
      encodes=ENC3, codes=CODES3, timeout=500)
def c11_orf_2exons_no_utr_records(glen: int, plus: bool, a0: int, b0: int, a1: int, b1: int, cs: int, ce: int,
                                  frame: int) -> int:
    """
    pre: 0 <= glen
    pre: 0 <= frame <= 2
    post: _ >= 0
    """
    return _check_orf(glen, 1 if plus else -1, [(a0, b0), (a1, b1)], cs, ce, frame, True, -1, utr_records=False)


@cond('C11', bounds='Sec codon at CDS codon 0..2, 2 exons, both strands; ' + _OB, encodes=ENC3,
      codes=CODES3, timeout=800)
def c11_sec_2exons(glen: int, plus: bool, a0: int, b0: int, a1: int, b1: int, cs: int, ce: int,
                   frame: int, sec_k: int) -> int:
    """
    pre: 0 <= glen
    pre: 0 <= frame <= 2
    pre: 0 <= sec_k <= 2
    post: _ >= 0
    """
    return _check_orf(glen, 1 if plus else -1, [(a0, b0), (a1, b1)], cs, ce, frame, True, sec_k)
