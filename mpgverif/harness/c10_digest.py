"""C10-2 / C10-3 (E1): digestion with miscleavages, N-terminal methionine removal and
pool assembly (I->L image, stop cut, leading X), on symbolic proteins.

Stubs: AminoAcidSeqRecord.find_all_enzymatic_cleave_sites -> a symbolic strictly
increasing site list (the rule semantics themselves are decided by c10_rules);
Bio.SeqUtils.molecular_weight -> constant above the mass limit (mass numerics are
outside the claim).
"""
from typing import List

from Bio import SeqUtils
from Bio.SeqRecord import SeqRecord  # noqa: F401

from moPepGen import aa
from moPepGen.aa import AminoAcidSeqRecord
import moPepGen.aa.AminoAcidSeqRecord as aamod
from mpgverif.hlib import OK, SKIP, cond, mkseq, patched, seq_points

USE_SHIM = True
USE_TOKENS = False

STUBS = ['AminoAcidSeqRecord.find_all_enzymatic_cleave_sites (symbolic site list)',
         'Bio.SeqUtils.molecular_weight (constant 1000.0)']
ENC = ['moPepGen.aa.AminoAcidSeqRecord.AminoAcidSeqRecord.enzymatic_cleave',
       'moPepGen.aa.AminoAcidSeqRecord.AminoAcidSeqRecord.__getitem__']


def _digest(p, sites, misc, minlen, maxlen, nf):
    rec = AminoAcidSeqRecord(mkseq(p), _id='P', transcript_id='T')

    def fake_sites(self, rule, exception=None):
        return list(sites)

    with patched((AminoAcidSeqRecord, 'find_all_enzymatic_cleave_sites', fake_sites),
                 (SeqUtils, 'molecular_weight', lambda seq, seq_type='protein': 1000.0)):
        return rec.enzymatic_cleave(rule='trypsin', exception=None, miscleavage=misc,
                                    min_mw=500.0, min_length=minlen, max_length=maxlen,
                                    cds_start_nf=nf)


def _has_x(p, a, b):
    for i in range(a, b):
        if p[i] == 88:
            return True
    return False


def _check_digest(p, sites, misc, minlen, maxlen, nf, j):
    n = len(p)
    got = _digest(p, sites, misc, minlen, maxlen, nf)
    bounds = [0] + list(sites) + [n]
    k = len(bounds)
    # expected windows in the documented order: by start boundary, then by end boundary;
    # the M-stripped form of a window starting at 0 precedes the window itself
    want = []
    for a in range(k - 1):
        for b in range(a + 1, k):
            if b - a - 1 > misc:
                break
            x, y = bounds[a], bounds[b]
            if a == 0 and (not nf) and y > x and p[x] == 77:
                if not _has_x(p, x + 1, y) and minlen <= y - x - 1 <= maxlen:
                    want.append((x + 1, y))
            if not _has_x(p, x, y) and minlen <= y - x <= maxlen:
                want.append((x, y))
    if len(got) != len(want):
        return -1
    for idx in range(len(want)):
        x, y = want[idx]
        g = seq_points(got[idx].seq)
        if len(g) != y - x:
            return -2
        if 0 <= j < y - x and g[j] != p[x + j]:
            return -3
    return OK


CODES = {-1: 'number of digestion products differs from the definition (windows of <= '
             'miscleavage+1 consecutive fragments within the length limits, plus M-removed forms)',
         -2: 'a digestion product has the wrong length',
         -3: 'a digestion product has the wrong residue'}


_NOXM = 'all(65 <= c <= 76 for c in p)'   # letters A..L: no X, no M


@cond('C10', bounds='length limits: protein of length 5 over A..L, 1 cleavage site at any position, '
      'miscleavage 0..2, unbounded symbolic min/max length', encodes=ENC, stubs=STUBS,
      codes=CODES, timeout=400)
def c10_digest_limits(p: List[int], s1: int, misc: int, minlen: int, maxlen: int, j: int) -> int:
    """
    pre: len(p) == 5
    pre: all(65 <= c <= 76 for c in p)
    pre: 0 < s1 <= len(p)
    pre: 0 <= misc <= 2
    post: _ >= 0
    """
    return _check_digest(p, [s1], misc, minlen, maxlen, False, j)


@cond('C10', bounds='window enumeration: protein of length 6 over A..L (no X, no M), 2 cleavage '
      'sites at any positions, miscleavage 0..3, length limits 1..100 fixed', encodes=ENC,
      stubs=STUBS, codes=CODES, timeout=400)
def c10_digest_windows(p: List[int], s1: int, s2: int, misc: int, j: int) -> int:
    """
    pre: len(p) == 6
    pre: all(65 <= c <= 76 for c in p)
    pre: 0 < s1 < s2 <= len(p)
    pre: 0 <= misc <= 3
    post: _ >= 0
    """
    return _check_digest(p, [s1, s2], misc, 1, 100, False, j)


@cond('C10', bounds='window enumeration: protein of length 6 over A..L, 3 cleavage sites, '
      'miscleavage 0..3, length limits 1..100 fixed', encodes=ENC, stubs=STUBS, codes=CODES,
      timeout=900, tiers=('thorough',))
def c10_digest_windows3(p: List[int], s1: int, s2: int, s3: int, misc: int, j: int) -> int:
    """
    pre: len(p) == 6
    pre: all(65 <= c <= 76 for c in p)
    pre: 0 < s1 < s2 < s3 <= len(p)
    pre: 0 <= misc <= 3
    post: _ >= 0
    """
    return _check_digest(p, [s1, s2, s3], misc, 1, 100, False, j)


@cond('C10', bounds='N-terminal methionine removal: protein length <= 4, first residue any '
      'letter, others A..L, 1 cleavage site, miscleavage 0..1, unbounded min/max length, '
      'cds_start_NF symbolic', encodes=ENC, stubs=STUBS, codes=CODES, timeout=400)
def c10_digest_mremoval(p: List[int], s1: int, misc: int, minlen: int, maxlen: int, nf: bool,
                        j: int) -> int:
    """
    pre: 1 <= len(p) <= 4
    pre: 65 <= p[0] <= 90
    pre: all(65 <= c <= 76 for c in p[1:])
    pre: 0 < s1 <= len(p)
    pre: 0 <= misc <= 1
    post: _ >= 0
    """
    return _check_digest(p, [s1], misc, minlen, maxlen, nf, j)


@cond('C10', bounds='X filter: protein length <= 4 (any letters A-Z), 1 cleavage site, '
      'miscleavage 0..1, length limits 1..100 fixed, cds_start_NF symbolic', encodes=ENC,
      stubs=STUBS, codes=CODES, timeout=400)
def c10_digest_xfilter(p: List[int], s1: int, misc: int, nf: bool, j: int) -> int:
    """
    pre: 1 <= len(p) <= 4
    pre: all(65 <= c <= 90 for c in p)
    pre: 0 < s1 <= len(p)
    pre: 0 <= misc <= 1
    post: _ >= 0
    """
    return _check_digest(p, [s1], misc, 1, 100, nf, j)


@cond('C10', bounds='protein length <= 4, no cleavage site, miscleavage 0..2', encodes=ENC,
      stubs=STUBS, codes=CODES, timeout=200)
def c10_digest_0site(p: List[int], misc: int, minlen: int, maxlen: int, nf: bool, j: int) -> int:
    """
    pre: 1 <= len(p) <= 4
    pre: all(65 <= c <= 90 for c in p)
    pre: 0 <= misc <= 2
    post: _ >= 0
    """
    return _check_digest(p, [], misc, minlen, maxlen, nf, j)


# --------------------------------------------------------------------------
# C10-3: pool assembly
# --------------------------------------------------------------------------
class _TxModel:
    def __init__(self, nf):
        self.nf = nf

    def is_cds_start_nf(self):
        return self.nf


class _AnnoFake:
    def __init__(self, txs):
        self.transcripts = txs


def _pool(p, nf, in_anno):
    """real create_unique_peptide_pool on one protein; enzymatic_cleave is stubbed to
    return the whole (already cut) protein so that the assembly steps are isolated."""
    seen = {}

    def fake_cleave(self, rule, exception=None, miscleavage=2, min_mw=500., min_length=7,
                    max_length=25, cds_start_nf=False):
        seen['nf'] = cds_start_nf
        seen['rec'] = self
        seen['args'] = (rule, exception, miscleavage, min_mw, min_length, max_length)
        return [self]

    d = aa.AminoAcidSeqDict()
    d['T'] = AminoAcidSeqRecord(mkseq(p), _id='P', transcript_id='T')
    anno = _AnnoFake({'T': _TxModel(nf)} if in_anno else {})
    with patched((AminoAcidSeqRecord, 'enzymatic_cleave', fake_cleave)):
        pool = d.create_unique_peptide_pool(anno=anno, rule='trypsin', exception='EXC',
                                            miscleavage=1, min_mw=3., min_length=2,
                                            max_length=9)
    return pool, seen


def _check_pool(p, nf, in_anno):
    n = len(p)
    pool, seen = _pool(p, nf, in_anno)
    # definition: strip leading X, cut at the first stop
    x = 0
    while x < n and p[x] == 88:
        x += 1
    y = x
    while y < n and p[y] != 42:
        y += 1
    if seen['args'] != ('trypsin', 'EXC', 1, 3., 2, 9):
        return -1          # digestion parameters not passed through
    if seen['nf'] != (nf and in_anno):
        return -2          # cds_start_NF not taken from the annotation
    g = seq_points(seen['rec'].seq)
    if len(g) != y - x:
        return -3          # not cut at the first stop / leading X not removed
    for j in range(y - x):
        if g[j] != p[x + j]:
            return -4
    # pool = {peptide, I->L image}
    if len(pool) > 2 or len(pool) < 1:
        return -5
    has_i = False
    for i in range(x, y):
        if p[i] == 73:
            has_i = True
    for s in pool:
        if len(s) != y - x:
            return -6
    if has_i:
        if len(pool) != 2:
            return -7      # I->L image missing
    else:
        if len(pool) != 1:
            return -7
    for s in pool:
        sp = [ord(ch) for ch in s]
        for j in range(y - x):
            cj = p[x + j]
            if sp[j] != cj and not (cj == 73 and sp[j] == 76):
                return -8
    # the image: every I replaced by L
    all_l = [s for s in pool if all(ch != 'I' for ch in s)]
    if len(all_l) != 1:
        return -9
    return OK


CODES3 = {-1: 'digestion parameters not passed through to enzymatic_cleave',
          -2: 'cds_start_NF not taken from the annotation',
          -3: 'protein not cut at the first stop / leading X not stripped',
          -4: 'cut protein has wrong content', -5: 'pool size wrong', -6: 'pool member length wrong',
          -7: 'I->L image missing or spurious', -8: 'pool member differs from peptide / I->L image',
          -9: 'no member with every I replaced by L'}
ENC3 = ['moPepGen.aa.AminoAcidSeqDict.AminoAcidSeqDict.create_unique_peptide_pool']


@cond('C10', bounds='one protein of length <= 3 over {A, I, X, *} (every string), cds_start_NF '
      'and annotation membership symbolic', encodes=ENC3,
      stubs=['AminoAcidSeqRecord.enzymatic_cleave (identity; decided by c10_digest_*)'],
      codes=CODES3, timeout=300)
def c10_pool_assembly(p: List[int], nf: bool, in_anno: bool) -> int:
    """
    pre: 1 <= len(p) <= 3
    pre: all(c in (65, 73, 88, 42) for c in p)
    post: _ >= 0
    """
    return _check_pool(p, nf, in_anno)


@cond('C10', bounds='one protein of length 4 over {A, I, L, X, *} (every string), cds_start_NF '
      'and annotation membership symbolic', encodes=ENC3,
      stubs=['AminoAcidSeqRecord.enzymatic_cleave (identity; decided by c10_digest_*)'],
      codes=CODES3, timeout=1500, tiers=('thorough',))
def c10_pool_assembly4(p: List[int], nf: bool, in_anno: bool) -> int:
    """
    pre: len(p) == 4
    pre: all(c in (65, 73, 76, 88, 42) for c in p)
    post: _ >= 0
    """
    return _check_pool(p, nf, in_anno)


def _pool2(p1, p2):
    """two proteins (whole protein = one digestion product): pool = both peptides + their I->L images,
    whatever the order of the proteins"""
    def fake_cleave(self, rule, exception=None, miscleavage=2, min_mw=500., min_length=7,
                    max_length=25, cds_start_nf=False):
        return [self]

    d = aa.AminoAcidSeqDict()
    d['T1'] = AminoAcidSeqRecord(mkseq(p1), _id='P1', transcript_id='T1')
    d['T2'] = AminoAcidSeqRecord(mkseq(p2), _id='P2', transcript_id='T2')
    with patched((AminoAcidSeqRecord, 'enzymatic_cleave', fake_cleave)):
        pool = d.create_unique_peptide_pool(anno=_AnnoFake({}), rule='trypsin', exception=None)
    want = set()
    for p in (p1, p2):
        s = ''.join(chr(c) for c in p)
        want.add(s)
        want.add(s.replace('I', 'L'))
    return OK if pool == want else -7


@cond('C10', bounds='two proteins of length <= 2 over {A, I, L} (every pair, both orders): pool = digestion products '
      'of both plus their I->L images', encodes=ENC3,
      stubs=['AminoAcidSeqRecord.enzymatic_cleave (identity; decided by c10_digest_*)'], codes=CODES3, timeout=300)
def c10_pool_two_proteins(i1: List[int], i2: List[int]) -> int:
    """
    pre: 1 <= len(i1) <= 2 and 1 <= len(i2) <= 2
    pre: all(0 <= c <= 2 for c in i1) and all(0 <= c <= 2 for c in i2)
    post: _ >= 0
    """
    from mpgverif.hlib import concretize
    p1 = [[65, 73, 76][concretize(c, 0, 2)] for c in i1]
    p2 = [[65, 73, 76][concretize(c, 0, 2)] for c in i2]
    return _pool2(p1, p2)


def _pool_nf(in1, nf1, in2, nf2, in3, nf3):
    """three proteins; each one's annotation membership and cds_start_NF tag symbolic: every protein must be digested
    with ITS OWN flag (False when its transcript is not annotated)"""
    seen = {}

    def fake_cleave(self, rule, exception=None, miscleavage=2, min_mw=500., min_length=7,
                    max_length=25, cds_start_nf=False):
        seen[self.transcript_id] = cds_start_nf
        return [self]

    d = aa.AminoAcidSeqDict()
    models = {}
    for tid, text, present, nf in (('T1', 'MAAK', in1, nf1), ('T2', 'MCCK', in2, nf2), ('T3', 'MDDK', in3, nf3)):
        d[tid] = AminoAcidSeqRecord(mkseq([ord(c) for c in text]), _id='P' + tid, transcript_id=tid)
        if present:
            models[tid] = _TxModel(nf)
    with patched((AminoAcidSeqRecord, 'enzymatic_cleave', fake_cleave)):
        d.create_unique_peptide_pool(anno=_AnnoFake(models), rule='trypsin', exception=None)
    want = {'T1': in1 and nf1, 'T2': in2 and nf2, 'T3': in3 and nf3}
    for tid in want:
        if tid not in seen:
            return -1
        if bool(seen[tid]) != bool(want[tid]):
            return -2
    return OK


@cond('C10', bounds='three proteins, each with symbolic annotation membership and cds_start_NF tag', encodes=ENC3,
      stubs=['AminoAcidSeqRecord.enzymatic_cleave -> recorder'],
      codes={-1: 'a protein was not digested', -2: 'a protein was digested with the cds_start_NF flag of another '
             'transcript (or not with False when its transcript is not annotated)'}, timeout=300)
def c10_pool_nf_per_protein(in1: bool, nf1: bool, in2: bool, nf2: bool, in3: bool, nf3: bool) -> int:
    """
    post: _ >= 0
    """
    return _pool_nf(in1, nf1, in2, nf2, in3, nf3)


@cond('C04', bounds='canonical pool used for filtering: two proteins of length <= 2 over {A, I, L} (every pair, incl. I/L '
      'twins): the pool holds every peptide AND its I->L image, whatever the order of the proteins', encodes=ENC3,
      stubs=['AminoAcidSeqRecord.enzymatic_cleave (identity; decided by c10_digest_*)'], codes=CODES3, timeout=300)
def c04_pool_il_twins(i1: List[int], i2: List[int]) -> int:
    """
    pre: 1 <= len(i1) <= 2 and 1 <= len(i2) <= 2
    pre: all(0 <= c <= 2 for c in i1) and all(0 <= c <= 2 for c in i2)
    post: _ >= 0
    """
    from mpgverif.hlib import concretize
    p1 = [[65, 73, 76][concretize(c, 0, 2)] for c in i1]
    p2 = [[65, 73, 76][concretize(c, 0, 2)] for c in i2]
    return _pool2(p1, p2)


# ------------------------------------------------------------------ mass limit, symbolic threshold
_MASS = {71: 57, 65: 71, 83: 87, 75: 128}          # G A S K (integer residue masses), + 18 for water


def _int_mass(seq, seq_type='protein'):
    total = 18
    for ch in str(seq):
        total += _MASS[ord(ch)]
    return total


def _min_mw(misc, min_mw):
    """concrete glycine / alanine-rich protein (three tryptic products of 7, 8 and 6 residues), the mass of a peptide is an
    exact integer model (sum of residue masses + water); the mass limit is SYMBOLIC: a product is in the digest iff its
    mass exceeds the limit - for every value of the limit"""
    text = 'GGGGGGK' + 'AGGSGGGK' + 'GGGGGA'
    p = [ord(c) for c in text]
    sites = [7, 15]
    rec = AminoAcidSeqRecord(mkseq(p), _id='P', transcript_id='T')

    def fake_sites(self, rule, exception=None):
        return list(sites)

    with patched((AminoAcidSeqRecord, 'find_all_enzymatic_cleave_sites', fake_sites),
                 (SeqUtils, 'molecular_weight', _int_mass)):
        got = rec.enzymatic_cleave(rule='trypsin', exception=None, miscleavage=misc, min_mw=min_mw, min_length=6,
                                   max_length=30, cds_start_nf=True)
    got = sorted(str(x.seq) for x in got)
    bounds = [0, 7, 15, len(text)]
    want = []
    for a in range(3):
        for b in range(a + 1, 4):
            if b - a - 1 > misc:
                break
            pep = text[bounds[a]:bounds[b]]
            if _int_mass(pep) > min_mw:
                want.append(pep)
    return OK if got == sorted(want) else -1


@cond('C10', bounds='concrete Gly/Ala-rich protein with 3 tryptic products, miscleavage 0..2, mass = exact integer model of the '
      'residue masses, mass limit an UNBOUNDED symbolic integer', encodes=ENC,
      stubs=['find_all_enzymatic_cleave_sites -> fixed sites', 'Bio.SeqUtils.molecular_weight -> integer residue-mass sum'],
      codes={-1: 'the digest differs from: every window within the miscleavage limit whose mass exceeds the mass limit'},
      timeout=300)
def c10_digest_min_mw(misc: int, min_mw: int) -> int:
    """
    pre: 0 <= misc <= 2
    post: _ >= 0
    """
    from mpgverif.hlib import concretize
    return _min_mw(concretize(misc, 0, 2), min_mw)
