"""Property -> harness modules.  A module may host conditions of several properties
(the registry is filtered by property id)."""
PROPS = {
    'C01': ['mpgverif.harness.c01_stage1'],
    'C02': ['mpgverif.harness.c01_stage1', 'mpgverif.harness.c07_wrapper'],
    'C03': ['mpgverif.harness.c03_labels'],
    'C15': ['mpgverif.harness.c15_fusion'],
    'C05': ['mpgverif.harness.kernel_vpd'],
    'C09': ['mpgverif.harness.kernel_vpd', 'mpgverif.harness.c09_sect'],
    'C08': ['mpgverif.harness.c08_novel_orf'],
    'C18': ['mpgverif.harness.c18_bookkeeping'],
    'C20': ['mpgverif.harness.c20_decoy'],
    'C19': ['mpgverif.harness.c19_filter'],
    'C14': ['mpgverif.harness.c14_vep', 'mpgverif.harness.c14_reditools'],
    'C16': ['mpgverif.harness.c16_rmats'],
    'C17': ['mpgverif.harness.c17_circ'],
    'C13': ['mpgverif.harness.c13_gvf'],
    'C10': ['mpgverif.harness.c10_rules', 'mpgverif.harness.c10_digest', 'mpgverif.harness.c12_index'],
    'C11': ['mpgverif.harness.c11_coords', 'mpgverif.harness.c11_gene', 'mpgverif.harness.c11_ondisk'],
    'C12': ['mpgverif.harness.c12_index'],
    'C04': ['mpgverif.harness.callvariant_loop', 'mpgverif.harness.c12_index', 'mpgverif.harness.kernel_vpd'],
    'C06': ['mpgverif.harness.callvariant_loop', 'mpgverif.harness.c12_index', 'mpgverif.harness.c13_gvf'],
    'C07': ['mpgverif.harness.callvariant_loop', 'mpgverif.harness.c07_wrapper', 'mpgverif.harness.c07_parser_loops'],
}
