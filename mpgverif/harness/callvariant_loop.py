"""Harnesses that drive the REAL ``moPepGen.cli.call_variant_peptide.call_variant_peptide``
main loop with recording stubs for its collaborators.

Stubs (module attributes of moPepGen.cli.call_variant_peptide, restored afterwards):
  VariantPeptideCaller -> FakeCaller (symbolic skip / invalid pattern),
  caller_reducer -> recording reducer returning per-transcript peptides and flags,
  ParallelPool -> synchronous map, open -> StringIO, get_logger -> null logger,
  seqvar.VariantRecordPoolOnDiskOpener -> pass-through, svgraph.VariantPeptideTable ->
  recording table with symbolic is_valid, common.print_start_message -> no-op.
Real code executed: the whole body of call_variant_peptide (sorting by annotation
rank, batching / flush condition, result loop, validity gate, tally updates).
"""
import argparse
import io
import sys
from typing import List

import moPepGen.cli.call_variant_peptide  # noqa: F401
from mpgverif.hlib import OK, SKIP, NullLogger, cond, patched

USE_SHIM = False
USE_TOKENS = False

cvp = sys.modules['moPepGen.cli.call_variant_peptide']

STUBS = ['VariantPeptideCaller', 'caller_reducer', 'ParallelPool', 'open', 'get_logger',
         'seqvar.VariantRecordPoolOnDiskOpener', 'svgraph.VariantPeptideTable',
         'common.print_start_message']


class _Anno:
    def __init__(self, order):
        self.order = order

    def get_transcript_rank(self):
        return {tx: i for i, tx in enumerate(self.order)}


class _Ref:
    def __init__(self, order):
        self.anno = _Anno(order)
        self.canonical_peptides = set()


class _Pool:
    def __init__(self, keys):
        # insertion order of the pointer dict is arbitrary w.r.t. annotation rank
        self.pointers = {k: [] for k in keys}
        self.gvf_files = []


class _Opener:
    def __init__(self, pool):
        self.pool = pool

    def __enter__(self):
        return self.pool

    def __exit__(self, *a):
        return False


class _Table:
    def __init__(self, handle):
        self.index = {}
        self.added = []
        self.valid = {}
        self.fasta_written = 0
        _Table.last = self

    def write_header(self):
        pass

    def is_valid(self, seq, canonical_peptides, cleavage_params):
        return _Table.valid_map.get(seq, True)

    def add_peptide(self, seq, anno):
        self.added.append((seq, anno))
        self.index[seq] = 1

    def write_fasta(self, path):
        self.fasta_written += 1


class _ProcessPool:
    def __init__(self, ncpus):
        self.ncpus = ncpus

    def map(self, f, dispatches):
        return [f(d) for d in dispatches]


class _Caller:
    """stands in for VariantPeptideCaller: skip[i] -> no dispatch for transcript i."""

    def __init__(self, args):
        self.args = args
        self.threads = args.threads
        n = len(args.skip)
        self.order = [f"T{i}" for i in range(n)]
        self.reference_data = _Ref(self.order)
        keys = list(self.order)
        if args.reverse_keys:
            keys.reverse()
        self.variant_record_pool = _Pool(keys)
        self.peptide_table_output_path = 'x'
        self.output_path = 'y'
        self.graph_output_dir = None
        self.cleavage_params = None
        self.logger = None
        self.tally = None

    def load_reference(self):
        pass

    def create_in_disk_variant_pool(self):
        pass

    def gather_data_for_call_variant(self, tx_id, pool):
        i = int(tx_id[1:])
        if self.args.invalid[i]:
            self.tally.n_transcripts_invalid += 1
            return None
        if self.args.skip[i]:
            return None
        return {'tx_id': tx_id}


def run_loop(skip, threads, invalid=None, flags=None, valid=None, reverse_keys=False):
    """Run the real main loop.  Returns (dispatched ids, table, tally, batches)."""
    n = len(skip)
    invalid = invalid or [False] * n
    dispatched = []
    batches = []

    def reducer(dispatch):
        tx = dispatch['tx_id']
        i = int(tx[1:])
        dispatched.append(tx)
        fl = (True, True, True) if flags is None else flags[i]
        # two peptides per transcript; 'SHARED' is produced by every transcript
        peps = {f'P{i}': [f'L{i}'], 'SHARED': [f'S{i}']}
        return (peps, tx, (None, {}, {}), (None, {}, {}), fl)

    class Pool(_ProcessPool):
        def map(self, f, dispatches):
            batches.append(len(dispatches))
            return [f(d) for d in dispatches]

    _Table.valid_map = valid or {}
    holder = {}

    class Caller(_Caller):
        def __init__(self, args):
            super().__init__(args)
            holder['caller'] = self

    args = argparse.Namespace(threads=threads, skip=skip, invalid=invalid,
                              reverse_keys=reverse_keys)
    with patched((cvp, 'VariantPeptideCaller', Caller),
                 (cvp, 'get_logger', lambda: NullLogger()),
                 (cvp, 'caller_reducer', reducer),
                 (cvp, 'ParallelPool', Pool),
                 (cvp, 'open', lambda *a, **k: io.StringIO()),
                 (cvp.common, 'print_start_message', lambda a: None),
                 (cvp.seqvar, 'VariantRecordPoolOnDiskOpener', _Opener),
                 (cvp.svgraph, 'VariantPeptideTable', _Table)):
        cvp.call_variant_peptide(args)
    return dispatched, _Table.last, holder['caller'].tally, batches


def _check_batching(skip, threads, reverse_keys):
    n = len(skip)
    got, table, tally, batches = run_loop(skip, threads, reverse_keys=reverse_keys)
    want = [f"T{i}" for i in range(n) if not skip[i]]
    if len(got) != len(want):
        return -1            # a transcript lost or dispatched twice
    for j in range(len(want)):
        if got[j] != want[j]:
            return -2        # wrong transcript / order differs from annotation rank
    # every dispatched transcript's peptides reach the table exactly once
    added = table.added
    for i in range(n):
        k = 0
        for seq, anno in added:
            if seq == f'P{i}' and anno == f'L{i}':
                k += 1
        if k != (0 if skip[i] else 1):
            return -3
        s = 0
        for seq, anno in added:
            if seq == 'SHARED' and anno == f'S{i}':
                s += 1
        if s != (0 if skip[i] else 1):
            return -3
    if len(added) != 2 * len(want):
        return -4            # spurious table rows
    if table.fasta_written != 1:
        return -5
    if tally.n_transcripts_processed != len(want) or tally.n_transcripts_total != n:
        return -6
    for b in batches:
        if b < 1 or b > threads:
            return -7        # a batch larger than the worker pool
    return OK


CODES = {-1: 'set of dispatched transcripts differs from the non-skipped ones '
             '(output would depend on --threads)',
         -2: 'dispatch order differs from annotation rank',
         -3: "a dispatched transcript's peptides did not reach the table exactly once",
         -4: 'spurious rows in the peptide table',
         -5: 'FASTA not written exactly once',
         -6: 'tally of processed/total transcripts wrong',
         -7: 'batch size outside 1..threads'}

ENC = ['moPepGen.cli.call_variant_peptide.call_variant_peptide']


@cond('C06', bounds='N=4 transcripts, every skip pattern, unbounded threads>=1, both '
      'insertion orders of the pointer dict', encodes=ENC, stubs=STUBS, codes=CODES,
      shim=False, timeout=120)
def c06_batching_n4(s0: bool, s1: bool, s2: bool, s3: bool, threads: int, rev: bool) -> int:
    """
    pre: threads >= 1
    post: _ >= 0
    """
    return _check_batching([s0, s1, s2, s3], threads, rev)


@cond('C06', bounds='N=6 transcripts, every skip pattern, unbounded threads>=1',
      encodes=ENC, stubs=STUBS, codes=CODES, shim=False, tiers=('thorough',),
      timeout=600)
def c06_batching_n6(s0: bool, s1: bool, s2: bool, s3: bool, s4: bool, s5: bool,
                    threads: int, rev: bool) -> int:
    """
    pre: threads >= 1
    post: _ >= 0
    """
    return _check_batching([s0, s1, s2, s3, s4, s5], threads, rev)


@cond('C06', bounds='N in 0..3 (symbolic length), every skip pattern, unbounded threads>=1',
      encodes=ENC, stubs=STUBS, codes=CODES, shim=False, timeout=120)
def c06_batching_len(skip: List[bool], threads: int) -> int:
    """
    pre: threads >= 1
    pre: len(skip) <= 3
    post: _ >= 0
    """
    return _check_batching([bool(x) for x in skip], threads, False)


# --------------------------------------------------------------------------
# C07-2: tally and isolation in the main loop
# --------------------------------------------------------------------------
def _check_tally(skip, invalid, fv, ff, fc, threads):
    n = len(skip)
    flags = [(not fv[i], not ff[i], not fc[i]) for i in range(n)]
    got, table, tally, _ = run_loop(skip, threads, invalid=invalid, flags=flags)
    run = [i for i in range(n) if not skip[i] and not invalid[i]]
    if len(got) != len(run):
        return -1
    for j, i in enumerate(run):
        if got[j] != f'T{i}':
            return -1
    # peptides of every processed unit reach the table whatever the flags of others
    for i in range(n):
        k = 0
        for seq, anno in table.added:
            if seq == f'P{i}':
                k += 1
        if k != (1 if i in run else 0):
            return -2
    want_v = len([i for i in run if fv[i]])
    want_f = len([i for i in run if ff[i]])
    want_c = len([i for i in run if fc[i]])
    if tally.n_transcripts_failed['variant'] != want_v:
        return -3
    if tally.n_transcripts_failed['fusion'] != want_f:
        return -3
    if tally.n_transcripts_failed['circRNA'] != want_c:
        return -3
    if tally.n_transcripts_invalid != len([i for i in range(n) if invalid[i]]):
        return -4
    if tally.n_transcripts_processed != len(run):
        return -5
    if table.fasta_written != 1:
        return -6
    return OK


CODES07 = {-1: 'a failing/invalid unit prevented another transcript from being dispatched',
           -2: "peptides of a healthy transcript are missing from (or duplicated in) the table",
           -3: 'failure tally does not equal the number of failing units per kind',
           -4: 'invalid-transcript tally wrong', -5: 'processed tally wrong',
           -6: 'FASTA not written exactly once'}


def _tally_kind(kind, st0, st1, st2, x0, x1, x2, threads):
    st = [st0, st1, st2]
    skip = [s == 1 for s in st]
    invalid = [s == 2 for s in st]
    x = [x0, x1, x2]
    no = [False, False, False]
    return _check_tally(skip, invalid, x if kind == 0 else no, x if kind == 1 else no,
                        x if kind == 2 else no, threads)


_B07 = ('N=3 transcripts, each run/skipped/invalid (3^3), every subset of units failing in '
        'the {} calls, unbounded threads>=1')


@cond('C07', bounds=_B07.format('main-variant'), encodes=ENC, stubs=STUBS, codes=CODES07,
      shim=False, timeout=300)
def c07_loop_tally_variant(st0: int, st1: int, st2: int, x0: bool, x1: bool, x2: bool,
                           threads: int) -> int:
    """
    pre: threads >= 1
    pre: 0 <= st0 <= 2 and 0 <= st1 <= 2 and 0 <= st2 <= 2
    post: _ >= 0
    """
    return _tally_kind(0, st0, st1, st2, x0, x1, x2, threads)


@cond('C07', bounds=_B07.format('fusion'), encodes=ENC, stubs=STUBS, codes=CODES07,
      shim=False, timeout=300)
def c07_loop_tally_fusion(st0: int, st1: int, st2: int, x0: bool, x1: bool, x2: bool,
                          threads: int) -> int:
    """
    pre: threads >= 1
    pre: 0 <= st0 <= 2 and 0 <= st1 <= 2 and 0 <= st2 <= 2
    post: _ >= 0
    """
    return _tally_kind(1, st0, st1, st2, x0, x1, x2, threads)


@cond('C07', bounds=_B07.format('circRNA'), encodes=ENC, stubs=STUBS, codes=CODES07,
      shim=False, timeout=300)
def c07_loop_tally_circ(st0: int, st1: int, st2: int, x0: bool, x1: bool, x2: bool,
                        threads: int) -> int:
    """
    pre: threads >= 1
    pre: 0 <= st0 <= 2 and 0 <= st1 <= 2 and 0 <= st2 <= 2
    post: _ >= 0
    """
    return _tally_kind(2, st0, st1, st2, x0, x1, x2, threads)


@cond('C07', bounds='N=2 transcripts, each with ANY combination of main-variant / fusion / circRNA failures at once (2^6), '
      'unbounded threads>=1', encodes=ENC, stubs=STUBS, codes=CODES07, shim=False, timeout=300)
def c07_loop_tally_mixed(v0: bool, f0: bool, c0: bool, v1: bool, f1: bool, c1: bool, threads: int) -> int:
    """
    pre: threads >= 1
    post: _ >= 0
    """
    return _check_tally([False, False], [False, False], [v0, v1], [f0, f1], [c0, c1], threads)


# --------------------------------------------------------------------------
# C04-2: call-site dominance of the validity gate in callVariant
# --------------------------------------------------------------------------
def _check_gate(skip, valid_p, valid_shared, threads):
    n = len(skip)
    valid = {f'P{i}': valid_p[i] for i in range(n)}
    valid['SHARED'] = valid_shared
    got, table, tally, _ = run_loop(skip, threads, valid=valid)
    for seq, anno in table.added:
        if not valid.get(seq, True):
            return -1     # a peptide rejected by is_valid was written
    for i in range(n):
        if skip[i]:
            continue
        want = 1 if valid_p[i] else 0
        k = len([1 for seq, anno in table.added if seq == f'P{i}' and anno == f'L{i}'])
        if k != want:
            return -2     # an accepted peptide/label pair is missing or duplicated
        k = len([1 for seq, anno in table.added if seq == 'SHARED' and anno == f'S{i}'])
        if k != (1 if valid_shared else 0):
            return -2
    return OK


@cond('C04', bounds='N=3 transcripts, every skip pattern, symbolic is_valid verdict per '
      'peptide, unbounded threads>=1', encodes=ENC, stubs=STUBS, shim=False, timeout=120,
      codes={-1: 'a peptide rejected by VariantPeptideTable.is_valid reached add_peptide',
             -2: 'an accepted (peptide, label) pair missing or duplicated'})
def c04_callvariant_gate(s0: bool, s1: bool, s2: bool, a0: bool, a1: bool, a2: bool,
                         shared: bool, threads: int) -> int:
    """
    pre: threads >= 1
    post: _ >= 0
    """
    return _check_gate([s0, s1, s2], [a0, a1, a2], shared, threads)
