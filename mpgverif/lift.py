"""Command-level lifting (E3 for properties stated about callVariant): build a one-transcript
reference + GVF from a concrete witness, run the REAL command (real Biopython, no stubs), and
compare with a definitional digest written independently of the implementation."""
import argparse
import itertools
import re
import tempfile
from pathlib import Path

GENE_ID = 'ENSG00000000001.1'
TX_ID = 'ENST00000000001.1'
PROTEIN_ID = 'ENSP00000000001.1'
CODONS = None


def _translate(dna):
    from Bio.Seq import Seq
    n = len(dna) - len(dna) % 3
    return str(Seq(dna[:n]).translate())


def write_reference(work, utr5, cds, utr3, stop='TAA'):
    genome = utr5 + cds + stop + utr3
    protein = _translate(cds)
    (work / 'genome.fasta').write_text('>chr1\n' + genome + '\n')
    attrs = (f'gene_id "{GENE_ID}"; transcript_id "{TX_ID}"; gene_type "protein_coding"; gene_name "DEMO"; '
             f'transcript_type "protein_coding"; transcript_name "DEMO-201"; level 2; '
             f'protein_id "{PROTEIN_ID}"; tag "basic";')
    gattrs = f'gene_id "{GENE_ID}"; gene_type "protein_coding"; gene_name "DEMO"; level 2;'
    cs, ce = len(utr5) + 1, len(utr5) + len(cds)
    rows = [['chr1', 'HAVANA', 'gene', 1, len(genome), '.', '+', '.', gattrs],
            ['chr1', 'HAVANA', 'transcript', 1, len(genome), '.', '+', '.', attrs],
            ['chr1', 'HAVANA', 'exon', 1, len(genome), '.', '+', '.', attrs],
            ['chr1', 'HAVANA', 'CDS', cs, ce, '.', '+', '0', attrs]]
    (work / 'annotation.gtf').write_text(''.join('\t'.join(str(x) for x in r) + '\n' for r in rows))
    (work / 'proteome.fasta').write_text(
        f'>{PROTEIN_ID}|{TX_ID}|{GENE_ID}|OTTHUMG1.1|OTTHUMT1.1|DEMO-201|DEMO|{len(protein)}\n{protein}\n')
    return genome


def write_gvf(work, genome, variants, name='v.gvf'):
    """variants: list of (pos0, ref, alt) in gene (= genomic, single exon, + strand) coordinates"""
    head = ['##fileformat=VCFv4.2', '##mopepgen_version=1.0', '##parser=parseVEP', '##reference_index=',
            '##genome_fasta=', '##annotation_gtf=', '##source=gSNP', '##CHROM=<Description="Gene ID">',
            '##INFO=<ID=TRANSCRIPT_ID,Number=1,Type=String,Description="Transcript ID">',
            '#CHROM\tPOS\tID\tREF\tALT\tQUAL\tFILTER\tINFO']
    lines = []
    for pos0, ref, alt in sorted(variants):
        assert genome[pos0:pos0 + len(ref)] == ref, (pos0, ref, genome[pos0:pos0 + len(ref)])
        typ = 'SNV' if len(ref) == len(alt) == 1 else 'INDEL'
        vid = f'{typ}-{pos0 + 1}-{ref}-{alt}'
        lines.append(f'{GENE_ID}\t{pos0 + 1}\t{vid}\t{ref}\t{alt}\t.\t.\tTRANSCRIPT_ID={TX_ID}')
    p = work / name
    p.write_text('\n'.join(head + lines) + '\n')
    return p


def base_args(work, gvfs, **kw):
    a = argparse.Namespace(
        command='callVariant', index_dir=None, genome_fasta=work / 'genome.fasta',
        annotation_gtf=work / 'annotation.gtf', proteome_fasta=work / 'proteome.fasta',
        reference_source=None, input_path=list(gvfs), output_path=work / 'out.fasta',
        graph_output_dir=None, max_adjacent_as_mnv=2, backsplicing_only=False, coding_novel_orf=False,
        selenocysteine_termination=False, w2f_reassignment=False, max_variants_per_node=[-1],
        additional_variants_per_misc=[-1], min_nodes_to_collapse=30, naa_to_collapse=5,
        inclusion_biotypes=None, exclusion_biotypes=None, cleavage_rule='trypsin',
        cleavage_exception='auto', miscleavage='2', min_mw='500.', min_length=7, max_length=25, quiet=True,
        debug_level=1, noncanonical_transcripts=False, invalid_protein_as_noncoding=False, threads=1,
        timeout_seconds=1800, skip_failed=False)
    for k, v in kw.items():
        setattr(a, k, v)
    return a


def run_callvariant(utr5, cds, utr3, variants, **kw):
    from Bio import SeqIO
    from moPepGen import cli
    with tempfile.TemporaryDirectory(prefix='mpgv_lift_') as d:
        work = Path(d)
        genome = write_reference(work, utr5, cds, utr3)
        gvf = write_gvf(work, genome, variants)
        args = base_args(work, [gvf], **kw)
        cli.call_variant_peptide(args)
        return {str(r.seq) for r in SeqIO.parse(work / 'out.fasta', 'fasta')}


# ------------------------------------------------------------------ definitional digest
def digest(protein, miscleavage=2, min_length=7, max_length=25, min_mw=500., strip_m=True):
    from Bio.SeqUtils import molecular_weight
    from moPepGen.aa.expasy_rules import EXPASY_RULES
    exc = {m.end() for m in re.finditer(EXPASY_RULES['trypsin_exception'], protein)}
    sites = [0] + [m.end() for m in re.finditer(EXPASY_RULES['trypsin'], protein) if m.end() not in exc]
    if sites[-1] != len(protein):
        sites.append(len(protein))
    out = set()
    for a in range(len(sites) - 1):
        for b in range(a + 1, min(a + 2 + miscleavage, len(sites))):
            pep = protein[sites[a]:sites[b]]
            cands = [pep]
            if a == 0 and strip_m and pep.startswith('M'):
                cands.append(pep[1:])
            for c in cands:
                if min_length <= len(c) <= max_length and 'X' not in c and '*' not in c \
                        and molecular_weight(c, 'protein') >= min_mw:
                    out.add(c)
    return out


def haplotype_peptides(utr5, cds, utr3, variants, **kw):
    """variant peptides of every compatible subset (variants after the start codon only), minus the
    digestion products of the unmodified protein"""
    genome = utr5 + cds + 'TAA' + utr3
    start = len(utr5)

    def protein_of(g):
        prot = _translate(g[start:])
        return prot.split('*')[0]

    ref = digest(protein_of(genome), **kw)
    ref |= {p.replace('I', 'L') for p in ref}
    res = set()
    vs = sorted(variants)
    for k in range(1, len(vs) + 1):
        for sub in itertools.combinations(vs, k):
            ok = all(sub[i][0] + len(sub[i][1]) <= sub[i + 1][0] for i in range(len(sub) - 1))
            if not ok:
                continue
            g = genome
            for pos0, r, a in sorted(sub, reverse=True):
                g = g[:pos0] + a + g[pos0 + len(r):]
            res |= digest(protein_of(g), **kw)
    return res - ref
