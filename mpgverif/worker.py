"""Run ONE harness condition (or its reachability twin) under CrossHair.

usage: python -m mpgverif.worker <module> <cond> <main|twin> <cpu_timeout> <out.json>

The encoding is regenerated on every run: CrossHair imports and symbolically executes
/repo's current source.  The result file records the solver verdict for the condition.
"""
import collections
import importlib
import inspect
import json
import os
import re
import sys
import tempfile
import time
import traceback


def module_flags(modname):
    """USE_SHIM / USE_TOKENS are read from the source text, because the shim has to
    be installed before the harness module (which imports moPepGen) is imported."""
    spec = importlib.util.find_spec(modname)
    src = open(spec.origin).read()
    flags = {}
    for key in ('USE_SHIM', 'USE_TOKENS'):
        m = re.search(rf'^{key}\s*=\s*(True|False)\s*$', src, re.M)
        flags[key] = bool(m and m.group(1) == 'True')
    return flags


def lint_no_contract_calls(mod):
    """CrossHair short-circuits calls to functions that carry a contract (it assumes their
    postcondition instead of executing them).  A harness condition calling another
    condition would therefore be vacuous; refuse such modules."""
    import ast
    from mpgverif.cond import REGISTRY
    names = {c.name for c in REGISTRY.values()}
    tree = ast.parse(open(mod.__file__).read())
    bad = []
    for fn in ast.walk(tree):
        if isinstance(fn, ast.FunctionDef):
            for n in ast.walk(fn):
                if isinstance(n, ast.Call) and isinstance(n.func, ast.Name) and n.func.id in names:
                    bad.append(f'{fn.name} -> {n.func.id}')
                if isinstance(n, ast.Call) and isinstance(n.func, ast.Attribute) and n.func.attr in names:
                    bad.append(f'{fn.name} -> {n.func.attr}')
    if bad:
        raise RuntimeError('contracted harness functions must not be called from harness code: '
                           + ', '.join(bad))


def extract_call(message, fname):
    """'... when calling f(ARGS) (which returns R)' -> 'ARGS' (balanced scan)."""
    key = f'when calling {fname}('
    i = message.find(key)
    if i < 0:
        return None
    j = i + len(key)
    depth = 1
    quote = None
    k = j
    while k < len(message):
        ch = message[k]
        if quote:
            if ch == '\\':
                k += 1
            elif ch == quote:
                quote = None
        elif ch in '\'"':
            quote = ch
        elif ch in '([{':
            depth += 1
        elif ch in ')]}':
            depth -= 1
            if depth == 0:
                return message[j:k]
        k += 1
    return None


def eval_args(argsrc, fn):
    def __cap(*a, **kw):
        return a, kw
    ns = dict(vars(sys.modules[fn.__module__]))
    ns['__cap'] = __cap
    a, kw = eval(f'__cap({argsrc})', ns)
    bound = inspect.signature(fn).bind(*a, **kw)
    bound.apply_defaults()
    return dict(bound.arguments)


TWIN_TMPL = '''import typing
from typing import *
import {module} as _H

def {name}__reach{sig}:
    """
{pre}
    post: _ != 1
    """
    return _H.{name}({call})
'''


def make_twin(fn, tmpdir):
    sig = inspect.signature(fn)
    doc = fn.__doc__ or ''
    pre = '\n'.join('    ' + ln.strip() for ln in doc.splitlines()
                    if ln.strip().startswith('pre:'))
    call = ', '.join(sig.parameters)
    src = TWIN_TMPL.format(module=fn.__module__, name=fn.__name__, sig=str(sig),
                           pre=pre, call=call)
    path = os.path.join(tmpdir, f'twin_{fn.__name__}.py')
    with open(path, 'w') as fh:
        fh.write(src)
    spec = importlib.util.spec_from_file_location(f'twin_{fn.__name__}', path)
    mod = importlib.util.module_from_spec(spec)
    sys.modules[spec.name] = mod
    spec.loader.exec_module(mod)
    return getattr(mod, fn.__name__ + '__reach')


def main():
    modname, cname, mode, timeout, out = sys.argv[1:6]
    timeout = float(timeout)
    res = {'cond': cname, 'module': modname, 'mode': mode, 'status': 'ERROR',
           'message': '', 'args': None, 'num_paths': 0, 'cpu_s': 0.0, 'wall_s': 0.0,
           'timeout': timeout}
    t0 = time.time()
    c0 = time.process_time()
    tmpdir = tempfile.mkdtemp(prefix='mpgv_')
    try:
        sys.setrecursionlimit(20000)
        flags = module_flags(modname)
        if flags['USE_SHIM']:
            from mpgverif import bioshim
            bioshim.install()
        from crosshair.core_and_libs import (MessageType, analyze_function,
                                             run_checkables)
        from crosshair.options import AnalysisOptionSet
        import crosshair.core as _chcore
        # Never skip ("short-circuit") a callee by assuming its contract: every function is
        # executed symbolically.  (CrossHair would otherwise replace e.g. hash() or any contracted
        # helper by an unconstrained proxy value with some probability.)
        _chcore.consider_shortcircuit = lambda *a, **k: None
        if flags['USE_TOKENS']:
            from mpgverif import inttok
            inttok.install()
        mod = importlib.import_module(modname)
        from mpgverif.cond import REGISTRY
        lint_no_contract_calls(mod)
        c = REGISTRY[cname]
        fn = c.fn
        target = fn if mode == 'main' else make_twin(fn, tmpdir)
        stats = collections.Counter()
        ppt = c.per_path_timeout or max(20.0, timeout ** 0.5)
        opts = AnalysisOptionSet(per_condition_timeout=timeout,
                                 per_path_timeout=ppt,
                                 max_uninteresting_iterations=0,
                                 report_all=True, stats=stats)
        res['import_s'] = round(time.time() - t0, 2)
        checkables = analyze_function(target, opts)
        if not checkables:
            raise RuntimeError('no contract found on ' + target.__name__)
        msgs = run_checkables(checkables)
        res['num_paths'] = int(stats.get('num_paths', 0))
        res['stats'] = {k: int(v) for k, v in stats.items()}
        kinds = [m.state.name for m in msgs]
        res['messages'] = [{'state': m.state.name, 'message': m.message[:2000]} for m in msgs]
        bad = [m for m in msgs if m.state.name in ('POST_FAIL', 'EXEC_ERR', 'POST_ERR')]
        if bad:
            m = bad[0]
            res['status'] = 'REFUTED'
            res['kind'] = m.state.name
            res['message'] = m.message[:4000]
            res['traceback'] = (m.traceback or '')[-3000:]
            argsrc = extract_call(m.message, target.__name__)
            if argsrc is not None:
                try:
                    res['args'] = eval_args(argsrc, target)
                    json.dumps(res['args'])
                except Exception as e:  # not serialisable / not evaluable
                    res['args_error'] = f'{type(e).__name__}: {e}'
                    res['args'] = None
                res['argsrc'] = argsrc
        elif 'CONFIRMED' in kinds:
            res['status'] = 'CONFIRMED'
        elif 'PRE_UNSAT' in kinds:
            res['status'] = 'PRE_UNSAT'
            res['message'] = msgs[0].message
        elif 'CANNOT_CONFIRM' in kinds:
            res['status'] = 'UNKNOWN'
        else:
            res['status'] = 'ERROR'
            res['message'] = '; '.join(f'{m.state.name}: {m.message}' for m in msgs)[:4000]
    except BaseException as e:  # engine crash -> ERROR (never success)
        res['status'] = 'ERROR'
        res['message'] = f'{type(e).__name__}: {e}'
        res['traceback'] = traceback.format_exc()[-4000:]
    res['cpu_s'] = round(time.process_time() - c0, 2)
    res['wall_s'] = round(time.time() - t0, 2)
    with open(out, 'w') as fh:
        json.dump(res, fh)
    try:
        import shutil
        shutil.rmtree(tmpdir, ignore_errors=True)
    except Exception:
        pass


if __name__ == '__main__':
    main()
