#!/usr/bin/env python3
"""Regenerate /verif/MANIFEST.json from the claim table below (single source of truth)."""
import json
import os

ROOT = os.path.dirname(os.path.dirname(os.path.abspath(__file__)))

TRUST = ("Bounded symbolic execution: the verdict covers every input within the bounds listed per "
         "condition in the evidence file and nothing outside them. Trusted base: CrossHair 0.0.110's "
         "model of Python, z3, the Bio value-class stand-ins (mpgverif/bioshim.py, conformance-tested "
         "against real Biopython; every counterexample and every reachability witness is replayed on "
         "the real classes), the rendered-integer token model (mpgverif/inttok.py), the per-harness "
         "stubs named in the evidence, and the harness oracles.")

# property -> (claimed?, technique, level text, level_note extra / reason)
CH = 'CrossHair symbolic execution of the real functions + z3 (per path), counterexamples replayed'
CLAIMS = {
    'C03': (True, CH,
            'The steps that produce a header entry, each on the real functions: every path of the transcript variant '
            'graph is annotated with exactly the variants whose application spells it (1 variant, 2 SNVs; 10 nt); '
            'join_miscleaved_peptides names exactly the variants a series of nodes depends on for every presence '
            'pattern of 8 variant roles; create_variant_peptide_id / parse_variant_peptide_id write and recover '
            'exactly those ids after the right backbone (transcript, fusion with donor/acceptor side, circRNA); '
            'get_peptide_sequences gives every entry a distinct trailing index. End to end on THREE fixed transcripts '
            '(2 SNVs; site-removing SNV + in-frame deletion; 3 SNVs in a pop-collapsed bubble): for every (peptide, header '
            'entry) pair the real traversal writes, the named variants were supplied, are compatible, and applying exactly '
            'them gives a translation in which the peptide is a digestion product; no entry string occurs twice - for '
            'miscleavage 1 (thorough 2) and ALL integer min/max lengths; likewise on a selenoprotein under '
            '--selenocysteine-termination and on a stop-lost read-through (deletion across the stop codon + downstream '
            'SNV) with GENCODE-style and with UTR-less annotation.',
            'The end-to-end statement is decided on three fixed transcripts only; for other inputs only the kernels '
            'apply (codon alignment, translation and cleavage-graph construction cannot carry symbolic content: DESIGN.md '
            'sections 6, 8); graph nodes are stand-ins in the join step.'),
    'C04': (True, CH,
            'Every path of the real callVariant main loop (stubbed collaborators) is explored for every '
            'skip pattern, thread count and is_valid verdict: a rejected peptide never reaches the table '
            'and every accepted (peptide,label) pair reaches it exactly once; the canonical pool used for '
            'filtering is digested with the command\'s own cleavage settings for all option values; on ONE concrete '
            'transcript (site-removing SNV + in-frame deletion) the real traversal reports no canonical peptide and nothing '
            'outside the limits for miscleavage 0..1 (thorough 2-3) and ALL integer min/max lengths.',
            'Claimed: call-site dominance of the validity gate and same-settings pool plumbing. Per-transcript '
            'denylist equality with the reference digest is outside the claim (needs the graph pipeline).'),
    'C06': (True, CH,
            'The real call_variant_peptide loop is executed symbolically with the thread count as an '
            'unbounded symbolic integer and the skip pattern as symbolic booleans: the dispatched set, '
            'order and table content are independent of --threads for N<=4 (thorough 6) transcripts; records gathered '
            'through byte-offset pointers of several files in any order; on two concrete peptide graphs the traversal '
            'result is the same for every iteration order of the node edge sets (order chosen by symbolic flags - the '
            'hash-seed clause at the traversal stage); records that differ in a field defining the event are never merged '
            'by the per-transcript set() that unites the GVF files.',
            'Claimed: thread-count/batching independence, dispatch order, file grouping/order, raw vs index pool '
            'parameters, set-order independence of the traversal on two fixed graphs. Process pools are replaced '
            'by a synchronous stub.'),
    'C07': (True, 'CrossHair symbolic execution with symbolic fault vectors + z3, per path',
            'Fault sequences are symbolic boolean vectors: for every subset of failing units (main, <=2 '
            'fusions, <=2 circRNAs) the real per-transcript wrapper isolates failures under --skip-failed '
            'and propagates the first one otherwise; the real main loop tallies exactly the failing units '
            'for every thread count.',
            'call_canonical_peptides (reference digest) is assumed not to fail.'),
    'C10': (True, 'regex->SMT window encoding of the live rule tables decided by z3; CrossHair+z3 for digestion',
            'All 36 cleavage-rule entries: site/range pairing and equivalence with a frozen ExPASy position-set '
            'formulation for EVERY string over A-Z,* up to length 10 (thorough 14); digestion windows, '
            'miscleavage bound, length limits, X filter, N-terminal M removal, pool assembly (stop cut, leading X, '
            'I->L image) and parameter plumbing on symbolic proteins / option values.',
            'Molecular-weight numerics are stubbed (a constant, or an exact integer residue-mass model against a symbolic mass '
            'limit); digestion bounds: protein length <= 6, <= 2 sites (thorough 3).'),
    'C11': (True, CH,
            'Coordinate conversions are mutually inverse and reject introns for UNBOUNDED symbolic exon '
            'coordinates (1-3 exons, thorough 4, both strands); extracted transcript, gene and CDS (get_cdna_sequence, 2 pieces) sequences equal the strand-corrected '
            'genome elementwise; ORF start/end and Sec positions agree with the CDS/Sec features for GENCODE-style, '
            'ENSEMBL-style and UTR-less annotations; pointer cache '
            'inductive step from any valid state; GTF byte-range pointers; GTF line round trip; whole-annotation '
            'GtfIO.write -> dump_gtf round trip (1 gene with CDS/UTR/Sec/tags, and 2 genes / 3 transcripts) for symbolic '
            'coordinates < 59000.',
            'Bounds per condition in the evidence file. The on-disk annotation is decided through the real '
            'generate_index / pointer load over a binary-file stand-in (line byte lengths concrete, coordinates symbolic): '
            'models equal the fully parsed ones for every access order incl. a repeated access, and two annotations alive '
            'in one process do not see each other; a lookup of an id that is not annotated leaves a valid cache state; real '
            'byte decoding is not encoded.'),
    'C12': (True, CH,
            'One inductive step of the index metadata state machine from states built by real registrations; '
            'save/override/load history over a dict-backed file system; generateIndex/updateIndex digest the pool '
            'with exactly the parameters they register, for all option values; three-step histories (two pools, then a forced '
            'refresh of the older or the newer one, or a third pool) load back the right pool for every parameter set; '
            'metadata written as JSON and read back by a new IndexDir keeps every parameter value (zeros included); '
            'version gate.',
            'Pickle/JSON serialisation itself is outside the claim.'),
    'C13': (True, CH,
            'GVF text round trip is a fixpoint and preserves positions, alleles, ids and attributes for every '
            'record kind with the attribute sets the parsers emit (read from source by an AST scan); circRNA '
            'round trip; byte-offset pointers (generated or via .idx text) give exactly the records of a '
            'linear scan for unbounded symbolic line lengths incl. multi-byte characters and a last line with or without '
            'a final newline; stale .idx rejected.',
            'Decimal renderings are modelled by opaque tokens (mpgverif/inttok.py); SHA-512 is stubbed.'),
    'C14': (True, CH,
            'VEP converter: for every chromosome content (length 5, thorough 6), gene/transcript span, strand, '
            'cds_start_NF and every SNV / deletion / insertion (both VEP conventions) / >=3-base substitution, REF '
            'equals the gene sequence and applying the record equals applying the genomic event and re-extracting the '
            'gene (elementwise); boundary events are rejected, never misplaced. REDItools: placement per transcript '
            '(one and two genes) and exact coverage/frequency thresholds, per substitution for sites listing several '
            'substitutions in any order.',
            'Frequency test compared against the exact rational rule for read counts 0..7; parse of the text tables is '
            'outside the claim.'),
    'C16': (True, CH,
            'SE, A5SS, A3SS, MXE, RI on genes with symbolic exon coordinates, both strands: every emitted record, applied '
            'under the documented <DEL>/<INS>/<SUB> semantics, yields exactly the alternative isoform (provenance '
            'membership of an arbitrary genomic position + anchor/donor placement); nothing is emitted when every '
            'junction is annotated or read support is below the thresholds. The parseRMATS command loop reads every given '
            'file with its own event type and passes the thresholds to every record. Down to peptides on ONE concrete '
            '3-exon gene: an SE and an RI event go through the real parser, the real GVF-pool conversion and the real '
            'call_peptide_main, and the traversal reports exactly the non-canonical digestion products of the alternative '
            'isoform for miscleavage 0..1 (thorough 2) and ALL integer min/max lengths.',
            'Event exons coincide with annotated exons as the property states; REF bases (sequence content) are stubbed in '
            'the parser conditions; the peptide-level chain is decided on one fixed gene (+ strand) only.'),
    'C17': (True, CH,
            'circRNA / ciRNA records: fragments equal the strand-corrected reported blocks, id encodes the back-splice '
            'coordinates, non-annotated blocks and ciRNAs outside the tolerance ranges are rejected, circular sequence '
            'equals the concatenated blocks elementwise, read thresholds exact, CLI loop skips and counts.',
            'Text parsing of the CIRCexplorer table is outside the claim.'),
    'C19': (True, CH,
            'For each of 9 header-entry kinds and all values of expression, cut-off, coding membership, denylist and the '
            'keep-* flags, the real filter keeps an entry iff the stated rule holds; peptide kept iff some entry kept; '
            'sequence unchanged; idempotent; miscleavage range exact, counted under the trypsin exceptions (CKD, DKD, RRH '
            'motif peptides).',
            'Expression values are integers (real-valued levels outside the claim); labels are concrete strings.'),
    'C01': (True, CH,
            'Stage 1 of 5: for every reading frame and every compatible subset of <=2 supplied variants (3 for SNVs) '
            'of every kind/position/length within the bound, the real variant graph (init_three_frames + '
            'create_variant_graph) contains a path spelling exactly that haplotype. A stage-1 witness is lifted to a '
            'real callVariant run against a definitional digest before it is reported. CircRNA clause: on ONE concrete '
            'two-exon circRNA the real call_peptide_circ_rna traversal reports exactly the non-canonical digestion products '
            'of the circular reading for miscleavage 0 (thorough 1-2) and ALL integer min/max lengths.',
            'NARROW CLAIM: codon alignment, translation and cleavage-graph construction cannot carry symbolic content '
            '(content-hashed graph nodes); they are exercised only concretely on the fixed examples, so a defect confined to '
            'them on other inputs is not detected. Known finding: adjacent variants of different merge classes '
            '(known_findings.txt).'),
    'C02': (True, CH,
            'Stage 1 of 5: every root-to-leaf path of the real variant graph spells the haplotype of exactly the '
            'variants annotated on it, and never combines overlapping variants (same bounds as C01). '
            'Plus: the timeout-retry reducer only lowers the two complexity limits; on ONE concrete transcript whose '
            'variant bubble is pop-collapsed (--min-nodes-to-collapse 3), on one with three frameshifting deletions whose '
            'pop-collapsed nodes are split again, and on a selenoprotein with two SNVs under --selenocysteine-termination, '
            'the real traversal reports exactly the definitional digest for miscleavage 0..1 (thorough 2) and ALL integer '
            'min/max lengths.',
            'NARROW CLAIM: codon alignment, translation and cleavage-graph construction are exercised only concretely '
            '(on the fixed example) - a defect confined to them on other inputs is not detected.'),
    'C05': (True, 'CrossHair + z3 for implementation == reference model; direct z3 (QF_LIA) for monotonicity of the model',
            'Kernel level: the real miscleavage enumeration equals a reference model for unbounded symbolic limits '
            '(chains of 3, thorough 4 nodes); the model is monotone in miscleavage/min/max length for ALL integers (z3); '
            'size predicates monotone; enabling W>F only adds sequences carrying W2F identifiers; pop-collapsed nodes use '
            'no miscleavage; adding a fusion record (per-transcript wrapper) or a second small variant (fixed transcript, all '
            'limits) only adds peptides, each attributable to the addition. Traversal stage on CONCRETE graphs with SYMBOLIC limits: for a fixed small transcript the real call_variant_peptides equals the definitional digest for every miscleavage 0..1 (thorough 2-3) and ALL integer min/max lengths (so the output is a pure filter of one fixed set: monotone in each limit).',
            'Kernel claim + one fixed transcript: monotonicity in added variants / GVF files for arbitrary inputs needs '
            'the graph pipeline and is outside the claim; nodes are duck-typed stand-ins in the kernel conditions.'),
    'C08': (True, CH,
            'Transcript selection of callNovelORF equals the documented rule for all option values (biotype lists, '
            '--coding-novel-orf, --min-tx-length, proteome membership); every peptide passes the pool filter; ORF FASTA '
            'coordinates translate to the listed sequence (end = start + 3*len, frame = start % 3). Traversal stage on CONCRETE graphs with SYMBOLIC limits: for a fixed small transcript the real callNovelORF traversal equals the definitional digest for every miscleavage 0..1 (thorough 2-3) and ALL integer min/max lengths of every ATG-to-stop ORF in all three frames minus the canonical pool (nested ATGs, run-off ORF, '
            'M-removed canonical twin). W>F kernel: for every peptide of length <= 4 over {A,F,W} and unbounded symbolic '
            'length limits exactly the 2^k - 1 substituted forms are added.',
            'PARTIAL: the peptide == definitional-digest equality is decided on ONE fixed non-coding transcript only.'),
    'C09': (True, CH,
            'W>F enumeration: exactly the 2^w - 1 substitution sets with headers naming the substituted positions; SECT '
            'pseudo-variant placed at the transcript interval of the Sec codon with the gene coordinate in its id. On ONE '
            'concrete selenoprotein transcript the real call_alt_translation_main (graph built concretely, flags plumbed by '
            'the real call) reports exactly the peptides arising only through Sec termination and/or W>F for each flag '
            'combination, miscleavage 0..1 (thorough 2) and ALL integer min/max lengths; headers name only requested events.',
            'PARTIAL: the end-to-end equality is decided on one fixed transcript; other transcripts only via the kernels.'),
    'C15': (True, CH,
            'STAR-Fusion, FusionCatcher and Arriba: convert -> shift to closest exon -> transcript mapping executed for '
            'real; the donor and acceptor parts denoted by the record equal the breakpoint-defined parts (incl. retained '
            'intronic bases) for every exon placement, strand and breakpoint (provenance of an arbitrary position). '
            'callVariant half: on TWO concrete fusions (acceptor entered in frame / out of frame) the real '
            'call_peptide_fusion traversal reports exactly the non-canonical digestion products of donor-up-to-breakpoint + '
            'acceptor-from-breakpoint for miscleavage 0..1 (thorough 2) and ALL integer min/max lengths; a third fusion has '
            'an mRNA_end_NF acceptor (the open-ended last fragment is not a product). Arriba evidence thresholds: is_valid '
            'equals the three-way conjunction for unbounded symbolic read counts / minima and every confidence pair; the '
            'parseSTARFusion / parseFusionCatcher loops convert a record iff it meets the (unbounded symbolic) thresholds '
            'and count the others as insufficient evidence.',
            'The callVariant half is decided on two fixed fusions with exonic breakpoints only; REF base content is '
            'stubbed in the parser conditions.'),
    'C18': (True, CH,
            'Source-set order equals "fewer sources first, then lexicographic by priority" for unbounded symbolic '
            'priorities; split decision for one peptide over every source assignment / priority order / max_groups / '
            'additional split, incl. top-priority sets of 1..3 sources matched by several --additional-split sets at once; '
            'merge union (pool and mergeFasta command loop over 1..4 files; --dedup-header kernel drops only entries equal '
            'to a kept one up to the trailing index, 3 entries over 12 texts); encode/decoy header inverse and dictionary '
            'restore; label syntax round trip; summarizeFasta totals add up and equal the splitFasta database sizes for 3 '
            'peptides over every source assignment and priority order.',
            'Kernel level with small pools (<= 3 peptides, 3 sources); FASTA text I/O is stubbed.'),
    'C20': (True, CH,
            'Reversal and shuffle are rearrangements keeping every fixed position for all sequences of length <=5 and all '
            'fixed sets (shuffle: arbitrary symbolic permutation); fixed-index rule for termini/listed residues; one '
            'decoy per target, header (whole title, incl. a two-entry title whose id is its first word), output order, order independence with a stateful RNG stand-in; reproducibility for '
            'ANY integer seed (0 and negatives included) from any prior generator state.',
            'Known finding: trypsin cleavage residue not kept in place (known_findings.txt).'),
}

NOT_YET = 'no solver-based check built for this property in this revision of /verif'
NA = {}


def main():
    props = [json.loads(l) for l in open(os.path.join(ROOT, 'properties.jsonl'))]
    checks, na = [], []
    for p in props:
        pid = p['id']
        c = CLAIMS.get(pid)
        if c and c[0]:
            checks.append({
                'property_id': pid,
                'quick_cmd': f'./check {pid} quick',
                'thorough_cmd': f'./check {pid} thorough',
                'evidence_file': f'/verif/evidence/{pid}.json',
                'replay_cmd_template': 'PYTHONPATH=/verif:/repo /verif/.venv/bin/python -m mpgverif.replay {path}',
                'engine': 'mpgverif',
                'level_claimed': {'category': 'model_checking', 'text': c[2],
                                  'design_ref': f'DESIGN.md section 4 ({pid})'},
                'level_note': c[3] + ' ' + TRUST,
                'technique': c[1],
            })
        else:
            na.append({'property_id': pid, 'reason': NA.get(pid, NOT_YET)})
    manifest = {
        'version': 1,
        'setup_cmd': './setup.sh',
        'hooks': {
            'guard': 'MOPEPGEN_VERIF',
            'enable': 'no source hooks are needed: checks stub collaborators through module attributes '
                      'inside their own processes; MOPEPGEN_VERIF=1 is exported by ./check for completeness',
            'baseline_off_cmd': 'python3 /verif/tools/baseline.py /repo',
            'source_commits': [],
            'add_only': True,
        },
        'engines': [{
            'name': 'mpgverif', 'path': '/verif/mpgverif',
            'serves_properties': [c['property_id'] for c in checks],
            'kind_free_text': 'bounded symbolic execution of the real Python functions (CrossHair 0.0.110 '
                              '+ z3) with environment models for Biopython value classes and integer '
                              'rendering; direct z3 encodings for regex rule tables and arithmetic lemmas; '
                              'every counterexample replayed on the real code',
        }],
        'checks': checks,
        'not_applicable': na,
        'notes': 'Exit codes: 0 nothing explored violates the property; 1 replayed violation (VIOLATION line); '
                 '3 malfunction of the checking machinery. Inconclusive conditions are printed as INCONCLUSIVE '
                 'and lower coverage.discharged; they are never counted as success. Fixed and known findings: '
                 '/verif/known_findings.txt.',
    }
    json.dump(manifest, open(os.path.join(ROOT, 'MANIFEST.json'), 'w'), indent=1)
    print('MANIFEST.json:', len(checks), 'checks,', len(na), 'not applicable')


if __name__ == '__main__':
    main()
