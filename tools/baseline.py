#!/usr/bin/env python3
"""Run the repository's pinned baseline (guard OFF) and compare with BASELINE.json.

usage: baseline.py [repo_dir] [-n WORKERS]
exit 0 iff every test of BASELINE.stable_pass passes in repo_dir (default /repo).
"""
import json
import os
import subprocess
import sys
import tempfile
import xml.etree.ElementTree as ET


def main():
    args = sys.argv[1:]
    repo = '/repo'
    workers = '0'
    while args:
        a = args.pop(0)
        if a == '-n':
            workers = args.pop(0)
        else:
            repo = a
    base = json.load(open('/root/.vp/BASELINE.json'))
    want = set(base['stable_pass'])
    env = dict(os.environ)
    for k in list(env):
        if k.startswith('MOPEPGEN_VERIF'):
            del env[k]
    with tempfile.TemporaryDirectory() as tmp:
        junit = os.path.join(tmp, 'j.xml')
        cmd = ['/venv/bin/python', '-m', 'pytest', '-q', '-p', 'no:cacheprovider',
               '--timeout=900', '--continue-on-collection-errors',
               f'--junitxml={junit}']
        if workers != '0':
            cmd += ['-n', workers]
        env['PYTHONPATH'] = repo
        proc = subprocess.run(cmd, cwd=repo, env=env, stdout=subprocess.PIPE,
                              stderr=subprocess.STDOUT, text=True)
        passed = set()
        failed = set()
        for case in ET.parse(junit).getroot().iter('testcase'):
            name = f"{case.get('classname')}::{case.get('name')}"
            bad = any(c.tag in ('failure', 'error', 'skipped') for c in case)
            (failed if bad else passed).add(name)
    missing = sorted(want - passed)
    print(f"baseline: {len(want & passed)}/{len(want)} stable tests pass; "
          f"total passed={len(passed)} failed={len(failed)}")
    for m in missing[:40]:
        print("MISSING", m)
    if missing:
        print(proc.stdout[-3000:])
    return 1 if missing else 0


if __name__ == '__main__':
    sys.exit(main())
