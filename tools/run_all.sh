#!/bin/bash
# run every claimed check (tier $1, default quick) sequentially on /repo; summary at the end
cd "$(dirname "$0")/.."
tier=${1:-quick}
for p in $(python3 -c "import json; print(' '.join(c['property_id'] for c in json.load(open('MANIFEST.json'))['checks']))"); do
  s=$(date +%s)
  ./check $p $tier > /tmp/runall_$p.log 2>&1
  rc=$?
  echo "$p exit=$rc $(( $(date +%s) - s ))s $(grep "^$p/" /tmp/runall_$p.log)"
  grep "VIOLATION\|HARNESS-ERROR\|INCONCLUSIVE" /tmp/runall_$p.log
done
