#!/usr/bin/env python3
"""Confirm a seeded change independently and keep it under /verif/seeded/<name>/.

usage: verify_seed.py <src_dir with patch.diff, demo.py, meta.json> <name> [--reverse-of-fix COMMIT]

In a scratch worktree of /repo HEAD (removed afterwards):
  1. demo.py exits 0 on the unchanged tree
  2. the patch applies; demo.py exits non-zero with it
  3. the pinned baseline (278 tests) still passes with it
"""
import json
import os
import shutil
import subprocess
import sys
import tempfile


def sh(cmd, cwd=None, env=None, timeout=1800):
    p = subprocess.run(cmd, cwd=cwd, env=env, shell=isinstance(cmd, str),
                       stdout=subprocess.PIPE, stderr=subprocess.STDOUT, text=True,
                       timeout=timeout)
    return p.returncode, p.stdout


def main():
    src, name = sys.argv[1], sys.argv[2]
    wt = tempfile.mkdtemp(prefix='seedchk_', dir='/tmp')
    os.rmdir(wt)
    rc, out = sh(['git', '-C', '/repo', 'worktree', 'add', '-q', '--detach', wt, 'HEAD'])
    assert rc == 0, out
    ok = False
    try:
        env = dict(os.environ, PYTHONPATH=wt)
        demo = os.path.join(src, 'demo.py')
        patch = os.path.join(src, 'patch.diff')
        r0, o0 = sh(['/venv/bin/python', demo], cwd=wt, env=env)
        print('demo on unchanged tree: exit', r0)
        rc, out = sh(['git', '-C', wt, 'apply', patch])
        if rc != 0:
            print('patch does not apply:', out)
            return 1
        r1, o1 = sh(['/venv/bin/python', demo], cwd=wt, env=env)
        print('demo with change: exit', r1, '|', o1.strip().splitlines()[-1][:200] if o1.strip() else '')
        rb, ob = sh(['python3', os.path.join(os.path.dirname(__file__), 'baseline.py'), wt])
        line = [ln for ln in ob.splitlines() if ln.startswith('baseline:')]
        print(line[0] if line else ob[-500:])
        ok = (r0 == 0 and r1 != 0 and rb == 0)
        if ok:
            dst = os.path.join('/verif/seeded', name)
            os.makedirs(dst, exist_ok=True)
            shutil.copy(patch, os.path.join(dst, 'patch.diff'))
            shutil.copy(demo, os.path.join(dst, 'demo.py'))
            meta = {}
            mp = os.path.join(src, 'meta.json')
            if os.path.exists(mp):
                try:
                    meta = json.load(open(mp))
                except Exception:
                    meta = {'raw': open(mp).read()}
            meta['confirmed'] = {
                'repo_head': sh(['git', '-C', '/repo', 'rev-parse', '--short', 'HEAD'])[1].strip(),
                'demo_exit_unchanged': r0, 'demo_exit_with_change': r1,
                'demo_last_line_with_change': o1.strip().splitlines()[-1][:300] if o1.strip() else '',
                'baseline_with_change': line[0] if line else '',
                'ran': ['demo.py on a clean scratch worktree', 'git apply patch.diff',
                        'demo.py with the change', 'tools/baseline.py with the change'],
            }
            json.dump(meta, open(os.path.join(dst, 'meta.json'), 'w'), indent=1)
            print('KEPT', dst)
        else:
            print('REJECTED', name)
    finally:
        sh(['git', '-C', '/repo', 'worktree', 'remove', '--force', wt])
    return 0 if ok else 1


if __name__ == '__main__':
    sys.exit(main())
