#!/bin/bash
# usage: tools/try_patch.sh <patch.diff> <PROP> [tier] [-R]   -- apply a seeded change to /repo, run the check, undo.
set -u
patch=$(realpath "$1"); prop=$2; tier=${3:-quick}; rev=${4:-}
cd /repo || exit 2
if ! git diff --quiet; then echo "/repo has uncommitted changes"; exit 2; fi
git apply $rev "$patch" || { echo "patch does not apply"; exit 2; }
cd /verif
./check "$prop" "$tier" --noevidence 2>&1 | grep -v "Warning\|pkg_resources"
rc=${PIPESTATUS[0]}
git -C /repo checkout -- .
echo "exit=$rc"
exit $rc
