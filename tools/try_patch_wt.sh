#!/bin/bash
# usage: tools/try_patch_wt.sh <patch.diff> <PROP> [tier] [extra check args]
# apply a seeded change to a scratch worktree of /repo under /tmp (so /repo stays untouched and several
# can run at once), run the check on it without writing evidence, remove the worktree.
set -u
patch=$(realpath "$1"); prop=$2; tier=${3:-quick}; shift; shift; shift || true
wt=$(mktemp -d /tmp/trywt.XXXXXX)
git -C /repo worktree add -q --detach "$wt" HEAD || exit 2
git -C "$wt" apply "$patch" || { echo "patch does not apply"; git -C /repo worktree remove --force "$wt"; exit 2; }
cd /verif
MPGVERIF_REPO="$wt" ./check "$prop" "$tier" --noevidence "$@" 2>&1 | grep -v "Warning\|pkg_resources"
rc=${PIPESTATUS[0]}
git -C /repo worktree remove --force "$wt"; git -C /repo worktree prune
echo "exit=$rc"
exit $rc
